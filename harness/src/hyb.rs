//! Hybrid-cache domain (C01, C12, C15, C17-disk, …): the real `HybridCache` on an `FsDevice` in a
//! temporary directory with the deterministic `SimIoEngine`, driven on a current-thread runtime.
//! Values carry `(key, version)` so stale / foreign reads are visible.

use std::{collections::BTreeMap, fmt::Write as _, sync::Arc};

use foyer::{
    BlockEngineConfig, DeviceBuilder, FifoConfig, FsDeviceBuilder, HybridCache, HybridCacheBuilder, HybridCachePolicy,
    HybridCacheProperties, Location, LruConfig, RecoverMode,
};
use foyer_common::properties::Source;
use foyer_storage::test_utils::Switch;

use crate::{
    Args, arg_u64,
    mem::{FnBuildHasher, HMode, fields},
    rng::Rng,
    sim::{Sim, SimIoEngineConfig},
};

pub const PAGE: usize = 4096;
pub const BLOCK: usize = 16 * 1024;

#[derive(Clone, Debug)]
pub struct HybCfg {
    pub woi: bool,
    pub foc: bool,
    pub tomb: bool,
    pub memcap: usize,
    pub lru: bool,
    pub blocks: usize,
    pub flushers: usize,
    pub lossy: bool,
    /// clean block threshold / reclaimers of the block engine
    pub thr: usize,
    pub reclaimers: usize,
    /// block size in bytes (default 16 KiB; 1 MiB makes blocks hold several blobs)
    pub bsize: usize,
    /// reinsertion filter of the reclaimer: 0 = reject all (default), n = admit the keys divisible by n
    pub reins: u64,
    /// "hyb" or "blk" (same executor; `blk` traces carry per-key loads and go to the C09 driver)
    pub domain: String,
    pub hmode: HMode,
    pub keys: u64,
}

impl HybCfg {
    pub fn line(&self) -> String {
        format!(
            "cfg domain={} policy={} foc={} tomb={} memcap={} memalgo={} blocks={} flushers={} lossy={} thr={} reclaimers={} reins={} bsize={} hmode={} keys={}",
            self.domain,
            if self.woi { "woi" } else { "woe" },
            self.foc as u8,
            self.tomb as u8,
            self.memcap,
            if self.lru { "lru" } else { "fifo" },
            self.blocks,
            self.flushers,
            self.lossy as u8,
            self.thr,
            self.reclaimers,
            self.reins,
            self.bsize,
            self.hmode.show(),
            self.keys
        )
    }
    pub fn parse(line: &str) -> Self {
        let f = fields(line);
        let g = |k: &str, d: &str| f.get(k).cloned().unwrap_or_else(|| d.to_string());
        HybCfg {
            woi: g("policy", "woe") == "woi",
            foc: g("foc", "1") == "1",
            tomb: g("tomb", "0") == "1",
            memcap: g("memcap", "3").parse().unwrap_or(3),
            lru: g("memalgo", "fifo") == "lru",
            blocks: g("blocks", "8").parse().unwrap_or(8),
            flushers: g("flushers", "1").parse().unwrap_or(1),
            lossy: g("lossy", "0") == "1",
            thr: g("thr", "1").parse().unwrap_or(1),
            reclaimers: g("reclaimers", "1").parse().unwrap_or(1),
            reins: g("reins", "0").parse().unwrap_or(0),
            bsize: g("bsize", "16384").parse().unwrap_or(BLOCK),
            domain: g("domain", "hyb"),
            hmode: HMode::parse(&g("hmode", "id")),
            keys: g("keys", "4").parse().unwrap_or(4),
        }
    }
}

pub type HCache = HybridCache<u64, Vec<u8>, FnBuildHasher>;

#[derive(Clone, Debug, PartialEq)]
pub enum HOp {
    Ins { k: u64, sz: char, loc: char },
    WIns { k: u64, sz: char, force: bool },
    Rm { k: u64 },
    Clear,
    Get { k: u64 },
    Fetch { k: u64 },
    Evict,
    Contains { k: u64 },
    Wait,
    Hold,
    Unhold,
    Gate,
    /// complete the batch whose writes are in flight; the gate stays closed for the next one
    ReleaseBatch,
    ReleaseAll,
    Reopen,
    /// `close()` is called while a flusher batch's device writes are still gated: it must not return before they
    /// completed (reported as `early=`); then the gate is opened, close finishes, the cache is reopened
    ReopenRaced,
}

pub fn size_of(sz: char) -> usize {
    match sz {
        's' => 64,
        // on disk: 36 bytes of header + 8 (u64 key) + 8 (length prefix of the value) + the value
        'm' => PAGE - 36 - 8 - 8,          // exactly one page on disk
        'n' => PAGE - 36 - 8 - 8 + 1,      // one byte over: two pages
        'o' => PAGE - 36 - 8 - 8 + 16,     // sixteen bytes over: the second page holds value bytes and the key
        'l' => 3 * PAGE - 36 - 8 - 8,      // the per-entry maximum (block 16K - index 4K)
        'x' => 3 * PAGE - 36 - 8 - 8 + 1,  // one byte beyond the per-entry disk limit
        _ => 16,
    }
}

pub fn make_value(k: u64, ver: u64, sz: char) -> Vec<u8> {
    let mut v = Vec::with_capacity(16 + size_of(sz));
    v.extend_from_slice(&k.to_le_bytes());
    v.extend_from_slice(&ver.to_le_bytes());
    v.resize(size_of(sz).max(16), (ver % 251) as u8);
    v
}

pub fn parse_value(v: &[u8]) -> (u64, u64) {
    if v.len() < 16 {
        return (u64::MAX, u64::MAX);
    }
    (u64::from_le_bytes(v[0..8].try_into().unwrap()), u64::from_le_bytes(v[8..16].try_into().unwrap()))
}

struct EvListener {
    log: Arc<parking_lot::Mutex<Vec<(foyer_common::event::Event, u64, u64)>>>,
}
impl foyer_common::event::EventListener for EvListener {
    type Key = u64;
    type Value = Vec<u8>;
    fn on_leave(&self, reason: foyer_common::event::Event, key: &u64, value: &Vec<u8>) {
        self.log.lock().push((reason, *key, parse_value(value).1));
    }
}

pub struct HExec {
    pub evlog: Arc<parking_lot::Mutex<Vec<(foyer_common::event::Event, u64, u64)>>>,
    pub cfg: HybCfg,
    pub rt: tokio::runtime::Runtime,
    pub dir: tempfile::TempDir,
    pub sim: Sim,
    pub switch: Switch,
    /// holds the disk tier's loads (test_utils): a lookup that missed memory stays in flight until released
    pub holder: foyer_storage::test_utils::Holder,
    pub cache: Option<HCache>,
    pub next_ver: u64,
    /// the harness' own record of the latest inserted version / size per key (for the origin of fetches)
    pub truth: BTreeMap<u64, (u64, char)>,
    pub held: bool,
    /// do not touch the watchdog's current-operation / current-trace state (the caller maintains it)
    pub quiet: bool,
    /// do not load every key after every operation (long directed scenarios)
    pub skip_loads: bool,
}

fn show(v: Vec<String>) -> String {
    if v.is_empty() { "-".into() } else { v.join(";") }
}

impl HExec {
    pub fn new(cfg: HybCfg) -> Self {
        Self::with_image(cfg, None)
    }

    /// Open on a prepared device image: one byte vector per partition (tombstone log first, if enabled).
    pub fn with_image(cfg: HybCfg, image: Option<&[Vec<u8>]>) -> Self {
        let rt = tokio::runtime::Builder::new_current_thread().enable_all().build().unwrap();
        let dir = tempfile::tempdir().unwrap();
        if let Some(parts) = image {
            for (i, bytes) in parts.iter().enumerate() {
                std::fs::write(dir.path().join(format!("foyer-storage-direct-fs-{i:08}")), bytes).unwrap();
            }
        }
        let mut ex = HExec {
            evlog: Default::default(),
            cfg,
            rt,
            dir,
            sim: Sim::new(),
            switch: Switch::default(),
            holder: Default::default(),
            cache: None,
            next_ver: 1,
            truth: BTreeMap::new(),
            held: false,
            quiet: false,
            skip_loads: false,
        };
        ex.open();
        ex
    }

    pub fn device_capacity(&self) -> usize {
        self.cfg.blocks * self.cfg.bsize + if self.cfg.tomb { PAGE } else { 0 }
    }

    pub fn open(&mut self) {
        let cfg = self.cfg.clone();
        if cfg.domain == "blk" && self.cache.is_none() && self.next_ver == 1 {
            // events of earlier cases
            let _ = foyer_storage::verif::verif_events::take();
        }
        let sim = self.sim.clone();
        let switch = self.switch.clone();
        let holder = self.holder.clone();
        let path = self.dir.path().to_path_buf();
        let cap = self.device_capacity();
        let evlog = self.evlog.clone();
        let cache = self.rt.block_on(async move {
            let device = FsDeviceBuilder::new(&path).with_capacity(cap).build().unwrap();
            let engine = BlockEngineConfig::new(device)
                .with_block_size(cfg.bsize)
                .with_blob_index_size(PAGE)
                .with_flushers(cfg.flushers)
                .with_reclaimers(cfg.reclaimers)
                .with_indexer_shards(2)
                .with_recover_concurrency(2)
                .with_buffer_pool_size(2 * 1024 * 1024 * cfg.flushers)
                .with_clean_block_threshold(cfg.thr)
                .with_tombstone_log(cfg.tomb)
                .with_flush_switch(switch)
                .with_load_holder(holder);
            let engine = if cfg.reins > 0 {
                let admits = (0..cfg.keys).filter(|k| k % cfg.reins == 0);
                engine.with_reinsertion_filter(
                    foyer_storage::StorageFilter::new().with_condition(foyer_storage::test_utils::Biased::new(admits)),
                )
            } else {
                engine
            };
            let b = HybridCacheBuilder::new()
                .with_event_listener(Arc::new(EvListener { log: evlog }))
                .with_policy(if cfg.woi { HybridCachePolicy::WriteOnInsertion } else { HybridCachePolicy::WriteOnEviction })
                .with_flush_on_close(cfg.foc)
                .memory(cfg.memcap)
                .with_shards(1)
                .with_hash_builder(FnBuildHasher(cfg.hmode));
            let b = if cfg.lru { b.with_eviction_config(LruConfig::default()) } else { b.with_eviction_config(FifoConfig::default()) };
            b.storage()
                .with_io_engine_config(Box::new(SimIoEngineConfig { sim }) as Box<dyn foyer_storage::IoEngineConfig>)
                .with_engine_config(engine)
                .with_recover_mode(RecoverMode::Quiet)
                .build()
                .await
                .unwrap()
        });
        self.cache = Some(cache);
        self.settle();
    }

    pub fn settle(&self) {
        self.rt.block_on(async {
            for _ in 0..200 {
                tokio::task::yield_now().await;
            }
        });
    }

    pub fn op_text(op: &HOp) -> String {
        match op {
            HOp::Ins { k, sz, loc } => format!("op=ins k={k} sz={sz} loc={loc}"),
            HOp::WIns { k, sz, force } => format!("op=wins k={k} sz={sz} force={}", *force as u8),
            HOp::Rm { k } => format!("op=rm k={k}"),
            HOp::Clear => "op=clear".into(),
            HOp::Get { k } => format!("op=get k={k}"),
            HOp::Fetch { k } => format!("op=fetch k={k}"),
            HOp::Evict => "op=evict".into(),
            HOp::Contains { k } => format!("op=contains k={k}"),
            HOp::Wait => "op=wait".into(),
            HOp::Hold => "op=hold".into(),
            HOp::Unhold => "op=unhold".into(),
            HOp::Gate => "op=gate".into(),
            HOp::ReleaseBatch => "op=releasebatch".into(),
            HOp::ReleaseAll => "op=releaseall".into(),
            HOp::Reopen => "op=reopen".into(),
            HOp::ReopenRaced => "op=reopen raced=1".into(),
        }
    }

    /// Is the operation safe to issue now (e.g. `wait` / `reopen` would hang while writes are gated)?
    pub fn enabled(&self, op: &HOp) -> bool {
        let gated = self.sim.st.lock().gated;
        let pending = self.sim.pending_ids().len();
        match op {
            HOp::Wait | HOp::Reopen | HOp::Clear => !gated && !self.held && pending == 0,
            HOp::ReleaseBatch => gated && pending > 0,
            HOp::ReopenRaced => gated && pending > 0 && !self.held && self.cfg.flushers == 1,
            HOp::ReleaseAll => gated || pending > 0,
            // completion-order control is modelled for a single flusher (one batch in flight at a time)
            HOp::Gate => !gated && !self.held && self.cfg.flushers == 1,
            HOp::Hold => !self.held && !gated && pending == 0,
            HOp::Unhold => self.held,
            _ => true,
        }
    }

    pub fn exec(&mut self, op: &HOp) -> String {
        if !self.quiet {
            crate::progress(&Self::op_text(op));
        }
        let mut line = Self::op_text(op);
        self.evlog.lock().clear();
        let log_from = self.sim.next_id();
        let cache = self.cache.clone().unwrap();
        let mut ret = String::from("ok");
        match op {
            HOp::Ins { k, sz, loc } => {
                let ver = self.next_ver;
                self.next_ver += 1;
                let _ = write!(line, " v={ver}");
                let value = make_value(*k, ver, *sz);
                let location = match loc {
                    'm' => Location::InMem,
                    'd' => Location::OnDisk,
                    _ => Location::Default,
                };
                let c = cache.clone();
                let kk = *k;
                self.rt.block_on(async move {
                    if location == Location::Default {
                        drop(c.insert(kk, value));
                    } else {
                        drop(c.insert_with_properties(kk, value, HybridCacheProperties::default().with_location(location)));
                    }
                });
                self.truth.insert(*k, (ver, *sz));
            }
            HOp::WIns { k, sz, force } => {
                let ver = self.next_ver;
                self.next_ver += 1;
                let _ = write!(line, " v={ver}");
                let value = make_value(*k, ver, *sz);
                let c = cache.clone();
                let (kk, ff) = (*k, *force);
                let some = self.rt.block_on(async move {
                    let w = c.storage_writer(kk);
                    let w = if ff { w.force() } else { w };
                    w.insert(value).is_some()
                });
                ret = if some { "some".into() } else { "none".into() };
                if some {
                    self.truth.insert(*k, (ver, *sz));
                }
            }
            HOp::Rm { k } => {
                let c = cache.clone();
                let kk = *k;
                self.rt.block_on(async move { c.remove(&kk) });
                self.truth.remove(k);
            }
            HOp::Clear => {
                let c = cache.clone();
                let r = self.rt.block_on(async move { c.clear().await });
                ret = if r.is_ok() { "ok".into() } else { "err".into() };
                self.truth.clear();
            }
            HOp::Get { k } => {
                let c = cache.clone();
                let kk = *k;
                let r = self.rt.block_on(async move { c.get(&kk).await.map(|o| o.map(|e| (parse_value(e.value()), e.source()))) });
                ret = match r {
                    Ok(Some(((key, ver), src))) => format!("v:{key}:{ver}:{}", src_name(src)),
                    Ok(None) => "miss".into(),
                    Err(e) => format!("err:{:?}", e.kind()),
                };
            }
            HOp::Fetch { k } => {
                // the origin returns the current source-of-truth value, or creates a new version
                let (ver, sz, fresh) = match self.truth.get(k) {
                    Some((v, s)) => (*v, *s, false),
                    None => {
                        let v = self.next_ver;
                        self.next_ver += 1;
                        (v, 's', true)
                    }
                };
                let _ = write!(line, " ov={ver} fresh={}", fresh as u8);
                let value = make_value(*k, ver, sz);
                let c = cache.clone();
                let kk = *k;
                let r = self.rt.block_on(async move {
                    c.get_or_fetch(&kk, || async move { Ok::<_, anyhow::Error>(value) }).await.map(|e| (parse_value(e.value()), e.source()))
                });
                ret = match r {
                    Ok(((key, v), src)) => {
                        if src == Source::Outer && fresh {
                            self.truth.insert(*k, (ver, sz));
                        }
                        format!("v:{key}:{v}:{}", src_name(src))
                    }
                    Err(e) => format!("err:{:?}", e.kind()),
                };
            }
            HOp::Evict => {
                cache.memory().evict_all();
            }
            HOp::Contains { k } => {
                ret = if cache.contains(k) { "t".into() } else { "f".into() };
            }
            HOp::Wait => {
                let c = cache.clone();
                self.rt.block_on(async move { c.storage().wait().await });
            }
            HOp::Hold => {
                self.switch.on();
                self.held = true;
            }
            HOp::Unhold => {
                self.switch.off();
                self.held = false;
                // the switch does not wake the flusher: a `wait()` does (and returns once it flushed)
                let c = cache.clone();
                self.rt.block_on(async move { c.storage().wait().await });
            }
            HOp::Gate => self.sim.set_gated(true),
            HOp::ReleaseBatch => {
                // round 1: the batch's data writes (and its tombstone page); round 2: its blob index
                // pages, which are issued only after the data completed.  The next batch is issued
                // only after that, and stays gated.
                let first_block = if self.cfg.tomb { 1 } else { 0 };
                let had_data = self
                    .sim
                    .pending_recs()
                    .iter()
                    .any(|w| w.partition >= first_block && w.offset > 0);
                self.sim.release_all();
                self.settle();
                if had_data {
                    self.sim.release_all();
                    self.settle();
                }
            }
            HOp::ReleaseAll => {
                self.sim.set_gated(false);
                // releasing may unblock further (gated-at-issue) writes: loop until none pending
                for _ in 0..50 {
                    self.sim.release_all();
                    self.settle();
                    if self.sim.pending_ids().is_empty() {
                        break;
                    }
                }
            }
            HOp::ReopenRaced => {
                let c = self.cache.take().unwrap();
                drop(cache);
                let h = self.rt.spawn(async move {
                    let r = c.close().await;
                    drop(c);
                    r
                });
                // give close() every chance to return: it must not, the batch in flight is not on the device yet
                for _ in 0..5 {
                    self.settle();
                }
                // (block-cleaning writes of the reclaimer are all-zero pages; close does not have to wait for them)
                let first_block = if self.cfg.tomb { 1 } else { 0 };
                let batch_pending = self
                    .sim
                    .pending_recs()
                    .iter()
                    .any(|w| w.partition >= first_block && !w.data.iter().all(|b| *b == 0));
                let early = h.is_finished() && batch_pending;
                self.sim.set_gated(false);
                for _ in 0..50 {
                    self.sim.release_all();
                    self.settle();
                    if self.sim.pending_ids().is_empty() && h.is_finished() {
                        break;
                    }
                }
                let r = self.rt.block_on(h);
                if !matches!(r, Ok(Ok(_))) {
                    ret = "err".into();
                }
                let _ = write!(line, " early={}", early as u8);
                self.settle();
                self.open();
            }
            HOp::Reopen => {
                let c = self.cache.take().unwrap();
                drop(cache);
                let r = self.rt.block_on(async move {
                    let r = c.close().await;
                    drop(c);
                    r
                });
                if r.is_err() {
                    ret = "err".into();
                }
                self.settle();
                self.open();
            }
        }
        self.settle();
        let cache = self.cache.clone().unwrap();
        let wl = self.sim.log_since(log_from);
        // bytes written to block partitions (the tombstone log, when enabled, is partition 0)
        let first_block = if self.cfg.tomb { 1 } else { 0 };
        let wbytes: usize = wl.iter().filter(|w| w.partition >= first_block).map(|w| w.data.len()).sum();
        let evs: Vec<String> = self
            .evlog
            .lock()
            .iter()
            .map(|(e, k, v)| {
                let n = match e {
                    foyer_common::event::Event::Evict => "evict",
                    foyer_common::event::Event::Replace => "replace",
                    foyer_common::event::Event::Remove => "remove",
                    foyer_common::event::Event::Clear => "clear",
                };
                format!("{n}:{k}:{v}")
            })
            .collect();
        let wlog: Vec<String> = wl
            .iter()
            .map(|w| format!("{}:{}:{}{}", w.partition, w.offset, w.data.len(), if w.data.iter().all(|b| *b == 0) { ":z" } else { "" }))
            .collect();
        let mem: Vec<String> = (0..self.cfg.keys).filter(|k| cache.memory().contains(k)).map(|k| k.to_string()).collect();
        let disk: Vec<String> = (0..self.cfg.keys).filter(|k| cache.storage().may_contains(k)).map(|k| k.to_string()).collect();
        // the entries (key.version) this operation put on the device, decoded from the data writes
        let went: Vec<String> = if self.cfg.domain == "hyb" && self.cfg.bsize == BLOCK {
            wl.iter()
                .filter(|w| w.partition >= first_block && w.offset > 0)
                .flat_map(|w| {
                    let d = crate::crash::describe(w, self.cfg.tomb);
                    d.strip_prefix("data:")
                        .map(|es| {
                            es.split(',')
                                .filter_map(|e| {
                                    let f: Vec<&str> = e.split('.').collect();
                                    if f.len() == 6 { Some(format!("{}.{}", f[3], f[4])) } else { None }
                                })
                                .collect::<Vec<_>>()
                        })
                        .unwrap_or_default()
                })
                .collect()
        } else {
            vec![]
        };
        let _ = write!(
            line,
            " ret={ret} w={wbytes} ev={} wlog={} mem={} disk={} pending={}",
            show(evs),
            show(wlog),
            show(mem),
            show(disk),
            self.sim.pending_ids().len()
        );
        if self.cfg.domain == "hyb" && self.cfg.bsize == BLOCK {
            let _ = write!(line, " went={}", show(went));
        }
        if self.cfg.domain == "blk" {
            // the block manager's own transitions during this operation (verif hook)
            let evs: Vec<String> = foyer_storage::verif::verif_events::take()
                .into_iter()
                .map(|(e, b, c, ev, _w, r, wt)| format!("{e}:{b}:{c}:{ev}:{r}:{wt}"))
                .collect();
            let _ = write!(line, " bev={}", show(evs));
        }
        if self.cfg.domain == "blk" && !self.skip_loads && !self.held && self.sim.pending_ids().is_empty() && !self.sim.st.lock().gated {
            // what the disk tier delivers for every key (no memory population)
            let mut loads = vec![];
            for k in 0..self.cfg.keys {
                let c = cache.clone();
                let r = self.rt.block_on(async move { c.storage().load(&k).await });
                loads.push(match r {
                    Ok(foyer_storage::Load::Entry { key, value, .. }) => {
                        let (vk, ver) = parse_value(&value);
                        if key != k || vk != k { format!("{k}:foreign") } else if !value_intact(&value) { format!("{k}:damaged") } else { format!("{k}:{ver}") }
                    }
                    Ok(foyer_storage::Load::Piece { piece, .. }) => format!("{k}:q{}", parse_value(piece.value()).1),
                    Ok(foyer_storage::Load::Miss) => format!("{k}:miss"),
                    Ok(foyer_storage::Load::Throttled) => format!("{k}:throttled"),
                    Err(_) => format!("{k}:err"),
                });
            }
            let disk2: Vec<String> = (0..self.cfg.keys).filter(|k| cache.storage().may_contains(k)).map(|k| k.to_string()).collect();
            let _ = write!(line, " loads={} disk2={}", show(loads), show(disk2));
        }
        if !self.quiet {
            crate::CUR_OP.lock().clear();
            let mut t = crate::CUR_TRACE.lock();
            t.push_str(&line);
            t.push('\n');
        }
        line
    }
}

/// does the value still carry the padding `make_value` gave it?
pub fn value_intact(v: &[u8]) -> bool {
    if v.len() < 16 {
        return false;
    }
    let ver = u64::from_le_bytes(v[8..16].try_into().unwrap());
    v[16..].iter().all(|b| *b == (ver % 251) as u8)
}

fn src_name(s: Source) -> &'static str {
    match s {
        Source::Memory => "memory",
        Source::Disk => "disk",
        Source::Outer => "outer",
    }
}

#[derive(Clone, Copy, Default)]
pub struct GenOpts {
    pub big: bool,
    /// close + reopen three times as often
    pub reopen: bool,
    /// only colliding hashers (constant / mod 2)
    pub collide: bool,
    /// C09: tiny device, sustained inserts (several device capacities), 1-3 flushers, 1-2 reclaimers
    pub overload: bool,
    /// C09: no removes (the default pickers must then reclaim oldest-filled first)
    pub nodel: bool,
    /// C09: a reinsertion filter that admits some keys
    pub reins: bool,
    /// C01 / C07: 1 MiB blocks (several blobs per block); the device wraps until a reused block's new
    /// generation ends exactly on an old blob boundary, then the store is restarted
    pub blobreuse: bool,
    /// C01: a lookup whose disk load is held in flight while the key is removed / overwritten
    pub inflight: bool,
    /// C09: 64 KiB blocks (a block can become more than 80% invalid): all keys of a block in the middle of the fill
    /// order are deleted, so the invalid-ratio picker reclaims it out of order; the device then wraps several times
    pub invalid: bool,
    /// C10: more flushed removes than one tombstone-log page holds (but fewer than the device has pages), on a device
    /// whose page count is not a multiple of the slots per log page; then two restarts
    pub tomblog: bool,
}

pub fn gen_cfg(rng: &mut Rng, o: GenOpts) -> HybCfg {
    if o.overload {
        // configurations the engine accepts without warning: flushers + threshold <= blocks / 2
        let (blocks, flushers, thr) = *rng.pick(&[
            (4usize, 1usize, 1usize),
            (5, 1, 1),
            (6, 1, 1),
            (6, 2, 1),
            (6, 1, 2),
            (8, 1, 1),
            (8, 2, 2),
            (8, 3, 1),
        ]);
        // with a reinsertion filter the device must be able to absorb what reclaim writes back: more blocks, and
        // (in gen_op) one-page entries only; the filter admits key 0 alone ("only extremely important entries")
        let (blocks, flushers, thr) = if o.reins { (*rng.pick(&[12usize, 16]), *rng.pick(&[1usize, 2]), 1usize) } else { (blocks, flushers, thr) };
        return HybCfg {
            woi: true,
            foc: true,
            tomb: rng.chance(1, 2),
            memcap: rng.range(1, 3) as usize,
            lru: false,
            blocks,
            flushers,
            lossy: true,
            thr,
            reclaimers: rng.range(1, 2) as usize,
            reins: if o.reins { 100 } else { 0 },
            bsize: BLOCK,
            domain: "blk".into(),
            hmode: HMode::Id,
            keys: rng.range(4, 9),
        };
    }
    let lossy = rng.chance(1, 4);
    HybCfg {
        woi: rng.chance(1, 2),
        foc: rng.chance(3, 4),
        tomb: rng.chance(1, 2),
        memcap: rng.range(1, 4) as usize,
        lru: rng.chance(1, 3),
        // most cases stay below the device capacity (the model then predicts the disk tier exactly);
        // a quarter run on a tiny device where block reclaim drops entries ("lossy": the model follows
        // the losses the trace shows and still checks everything else)
        blocks: if lossy { *rng.pick(&[4usize, 6, 8]) } else { 64 },
        flushers: if lossy { 1 } else { *rng.pick(&[1usize, 1, 2]) },
        lossy,
        thr: 1,
        reclaimers: 1,
        reins: 0,
        bsize: BLOCK,
        domain: "hyb".into(),
        hmode: match (o.collide, rng.below(6)) {
            (true, 0..=2) | (false, 0) => HMode::Const(7),
            (true, _) | (false, 1) => HMode::Mod(2),
            _ => HMode::Id,
        },
        keys: rng.range(2, 5),
    }
}

pub fn gen_op(rng: &mut Rng, ex: &HExec, o: GenOpts) -> HOp {
    let keys = ex.cfg.keys;
    let big = o.big;
    if o.overload {
        loop {
            let op = match rng.below(100) {
                0..=54 => HOp::Ins {
                    k: rng.below(keys),
                    sz: if o.reins { *rng.pick(&['s', 's', 'm']) } else { *rng.pick(&['s', 's', 'm', 'n', 'l', 'l']) },
                    loc: '-',
                },
                55..=64 => HOp::WIns { k: rng.below(keys), sz: 's', force: true },
                65..=69 => {
                    if o.nodel {
                        HOp::Wait
                    } else {
                        HOp::Rm { k: rng.below(keys) }
                    }
                }
                70..=76 => HOp::Get { k: rng.below(keys) },
                77..=80 => HOp::Wait,
                81..=84 => HOp::Hold,
                85..=88 => HOp::Unhold,
                89..=91 => HOp::Gate,
                92..=95 => HOp::ReleaseBatch,
                96..=97 => HOp::ReleaseAll,
                98 => HOp::Evict,
                _ => HOp::Reopen,
            };
            if ex.enabled(&op) {
                return op;
            }
        }
    }
    loop {
        if o.reopen && rng.chance(1, 12) && ex.enabled(&HOp::Reopen) {
            return HOp::Reopen;
        }
        if o.reopen && rng.chance(1, 3) && ex.enabled(&HOp::ReopenRaced) {
            return HOp::ReopenRaced;
        }
        let op = match rng.below(100) {
            0..=27 => HOp::Ins {
                k: rng.below(keys),
                sz: if big { *rng.pick(&['s', 's', 'm', 'n', 'l', 'x']) } else { *rng.pick(&['s', 's', 's', 'm', 'n']) },
                loc: *rng.pick(&['-', '-', '-', '-', 'm', 'd']),
            },
            28..=31 => HOp::WIns { k: rng.below(keys), sz: 's', force: rng.chance(1, 2) },
            32..=39 => HOp::Rm { k: rng.below(keys) },
            40..=40 => HOp::Clear,
            41..=58 => HOp::Get { k: rng.below(keys) },
            59..=64 => HOp::Fetch { k: rng.below(keys) },
            65..=74 => HOp::Evict,
            75..=77 => HOp::Contains { k: rng.below(keys) },
            78..=82 => HOp::Wait,
            83..=85 => HOp::Hold,
            86..=89 => HOp::Unhold,
            90..=91 => HOp::Gate,
            92..=94 => HOp::ReleaseBatch,
            95..=96 => HOp::ReleaseAll,
            _ => HOp::Reopen,
        };
        if ex.enabled(&op) {
            return op;
        }
    }
}

/// Directed scenario: blocks that hold several blobs are filled, reclaimed and reused; the run is closed at a
/// moment when the new generation of a reused block ends right where a blob of its previous generation began.
pub fn run_blobreuse(rng: &mut Rng) -> String {
    let cfg = HybCfg {
        woi: true,
        foc: true,
        tomb: rng.chance(1, 2),
        memcap: 2,
        lru: false,
        blocks: 4,
        flushers: 1,
        lossy: true,
        thr: 1,
        reclaimers: 1,
        reins: 0,
        bsize: 1024 * 1024,
        domain: "blk".into(),
        hmode: HMode::Id,
        keys: 253,
    };
    let mut out = cfg.line();
    out.push('\n');
    *crate::CUR_TRACE.lock() = out.clone();
    let keys = cfg.keys;
    let tomb = cfg.tomb;
    let mut ex = HExec::new(cfg);
    ex.skip_loads = true;
    let first_block = if tomb { 1 } else { 0 };
    let mut generation = std::collections::BTreeMap::<u32, u32>::new();
    // one-page entries: a block takes 170 in its first blob (index page + 170 pages), the rest in a second blob
    let target_pages = 171usize;
    let per_block = (1024 * 1024 / PAGE) - 2 - 1; // two index pages; the last page cannot hold index + entry
    let extra = rng.range(0, 3) as usize;
    let mut seen = 0u64;
    for i in 0..6000usize {
        // keys 0..keys: first written into the first block (its second blob holds keys 170..), rewritten right
        // after the first block is full (so that their newest copy lives in the second block); everything else
        // gets keys outside the reported universe
        let k = if i < per_block + extra {
            (i as u64) % keys.max(1)
        } else if i < 2 * per_block {
            let j = i - (per_block + extra);
            if (j as u64) < keys { 170 + (j as u64) % (keys - 170).max(1) } else { 100_000 + i as u64 }
        } else {
            100_000 + i as u64
        };
        out.push_str(&ex.exec(&HOp::WIns { k, sz: 's', force: true }));
        out.push('\n');
        if i + 1 == per_block + extra {
            // the first block is full (two blobs): every claimed key must be loadable from where the index says
            ex.skip_loads = false;
            out.push_str(&ex.exec(&HOp::Wait));
            out.push('\n');
            ex.skip_loads = true;
        }
        let ws = ex.sim.log_since(seen);
        seen = ex.sim.next_id();
        let mut stop = false;
        for w in ws.iter().filter(|w| w.partition >= first_block && w.offset > 0) {
            if w.offset as usize == PAGE {
                *generation.entry(w.partition).or_insert(0) += 1;
            }
            // the entry just written ends where the old second blob's index page is, in a reused block
            let end = w.offset as usize + w.data.len();
            if generation.get(&w.partition).copied().unwrap_or(0) >= 2 && end == target_pages * PAGE {
                stop = true;
            }
        }
        if stop {
            break;
        }
    }
    ex.skip_loads = false;
    // one observation of the live store (every key the disk tier claims must be loadable from where the index says;
    // later blobs of a block sit behind the first one), then the restart
    out.push_str(&ex.exec(&HOp::Wait));
    out.push('\n');
    out.push_str(&ex.exec(&HOp::Reopen));
    out.push('\n');
    for k in 0..keys {
        out.push_str(&ex.exec(&HOp::Get { k }));
        out.push('\n');
    }
    out
}

/// Directed scenario (C10, through the whole store): the engine sizes the tombstone log from the device (one slot
/// per device page, 256 slots per log page).  On a device of 448 pages (28 blocks of 64 KiB) 300 keys are written,
/// flushed, removed (each remove flushed: 300 tombstones, more than one log page, fewer than the device has pages);
/// after two restarts none of the removed keys may be readable.
pub fn run_tomblog(rng: &mut Rng) -> String {
    let nkeys = rng.range(280, 330);
    let cfg = HybCfg {
        woi: true,
        foc: true,
        tomb: true,
        memcap: 2,
        lru: false,
        blocks: 28,
        flushers: 1,
        lossy: false,
        thr: 1,
        reclaimers: 1,
        reins: 0,
        bsize: 64 * 1024,
        domain: "hyb".into(),
        hmode: HMode::Id,
        keys: nkeys,
    };
    let mut out = cfg.line();
    out.push('\n');
    *crate::CUR_TRACE.lock() = out.clone();
    let mut ex = HExec::new(cfg);
    let mut run = |ex: &mut HExec, op: HOp, out: &mut String| {
        out.push_str(&ex.exec(&op));
        out.push('\n');
    };
    for k in 0..nkeys {
        run(&mut ex, HOp::WIns { k, sz: 's', force: true }, &mut out);
    }
    run(&mut ex, HOp::Wait, &mut out);
    run(&mut ex, HOp::Reopen, &mut out);
    for k in 0..nkeys {
        run(&mut ex, HOp::Rm { k }, &mut out);
    }
    run(&mut ex, HOp::Wait, &mut out);
    run(&mut ex, HOp::Reopen, &mut out);
    run(&mut ex, HOp::Reopen, &mut out);
    for k in 0..nkeys {
        run(&mut ex, HOp::Get { k }, &mut out);
    }
    out
}

/// Directed scenario (C09): one-page entries of fresh keys fill 64 KiB blocks (15 entries each); once a few blocks
/// are full, every key of one block in the middle of the fill order is removed (that block is then > 80% invalid
/// and the invalid-ratio picker takes it out of order); inserts continue for several device capacities.  The
/// manager's event log (with the picked block's invalid bytes) feeds the reclaim-order monitor.
pub fn run_invalid(rng: &mut Rng) -> String {
    let thr = *rng.pick(&[1usize, 1, 2]);
    let cfg = HybCfg {
        woi: true,
        foc: true,
        tomb: rng.chance(1, 2),
        memcap: 2,
        lru: false,
        blocks: 8,
        flushers: 1,
        lossy: true,
        thr,
        reclaimers: 1,
        reins: 0,
        bsize: 64 * 1024,
        domain: "blk".into(),
        hmode: HMode::Id,
        keys: 8,
    };
    let mut out = cfg.line();
    out.push('\n');
    *crate::CUR_TRACE.lock() = out.clone();
    let mut ex = HExec::new(cfg);
    ex.skip_loads = true;
    let per_block = 15u64;
    let victim_block = rng.range(1, 3); // fill index of the block whose keys are removed
    let filled_before = rng.range(4, 6); // blocks filled before the removes
    let total = 8 * per_block * rng.range(3, 5);
    let mut next_key = 1000u64;
    let mut written: Vec<u64> = vec![];
    for i in 0..total {
        let k = next_key;
        next_key += 1;
        written.push(k);
        out.push_str(&ex.exec(&HOp::WIns { k, sz: 's', force: true }));
        out.push('\n');
        if i + 1 == filled_before * per_block {
            let lo = (victim_block * per_block) as usize;
            for k in written[lo..lo + per_block as usize].to_vec() {
                out.push_str(&ex.exec(&HOp::Rm { k }));
                out.push('\n');
            }
        }
        if rng.chance(1, 16) {
            out.push_str(&ex.exec(&HOp::Wait));
            out.push('\n');
        }
    }
    out.push_str(&ex.exec(&HOp::Wait));
    out.push('\n');
    out
}

/// Directed scenario (C01): key 0 has a version on disk only; a lookup misses memory and its disk load is held in
/// flight; meanwhile the key is removed, or overwritten, or both; the load is released; then the key is looked up.
/// The trace is judged by the monitors only (`directed=inflight`: the sequential key-level model has no lookups
/// in flight).  Lines: the usual ones, plus `op=heldget k=` (the lookup starts) and `op=unholdloads ret=` (it ends).
pub fn run_inflight(rng: &mut Rng) -> String {
    let cfg = HybCfg {
        woi: rng.chance(1, 2),
        foc: true,
        tomb: rng.chance(1, 2),
        memcap: 4,
        lru: rng.chance(1, 2),
        blocks: 8,
        flushers: 1,
        lossy: false,
        thr: 1,
        reclaimers: 1,
        reins: 0,
        bsize: 16 * 1024,
        domain: "hyb".into(),
        hmode: HMode::Id,
        keys: 2,
    };
    let variant = rng.below(3); // 0: remove, 1: overwrite, 2: overwrite then remove
    let mut out = format!("{} directed=inflight variant={variant}\n", cfg.line());
    *crate::CUR_TRACE.lock() = out.clone();
    let mut ex = HExec::new(cfg);
    let mut run = |ex: &mut HExec, op: HOp, out: &mut String| {
        out.push_str(&ex.exec(&op));
        out.push('\n');
    };
    run(&mut ex, HOp::Ins { k: 0, sz: 's', loc: '-' }, &mut out);
    run(&mut ex, HOp::Wait, &mut out);
    run(&mut ex, HOp::Evict, &mut out);
    run(&mut ex, HOp::Wait, &mut out);
    // the lookup misses memory, finds the key in the disk index and issues the device read, which stays in flight
    ex.sim.set_read_gated(true);
    let c = ex.cache.clone().unwrap();
    let h = ex.rt.spawn(async move { c.get(&0u64).await.map(|o| o.map(|e| (parse_value(e.value()), e.source()))) });
    ex.settle();
    crate::progress("op=heldget k=0");
    let _ = writeln!(out, "op=heldget k=0 ret=pending reads_in_flight={}", ex.sim.reads_in_flight());
    if variant >= 1 {
        run(&mut ex, HOp::Ins { k: 0, sz: 's', loc: '-' }, &mut out);
    }
    if variant != 1 {
        run(&mut ex, HOp::Rm { k: 0 }, &mut out);
    }
    crate::progress("op=unholdloads");
    ex.sim.set_read_gated(false);
    let r = ex.rt.block_on(h);
    let ret = match r {
        Ok(Ok(Some(((key, ver), src)))) => format!("v:{key}:{ver}:{}", src_name(src)),
        Ok(Ok(None)) => "miss".into(),
        Ok(Err(e)) => format!("err:{:?}", e.kind()),
        Err(_) => "panic".into(),
    };
    ex.settle();
    let _ = writeln!(out, "op=unholdloads ret={ret}");
    run(&mut ex, HOp::Get { k: 0 }, &mut out);
    run(&mut ex, HOp::Evict, &mut out);
    run(&mut ex, HOp::Get { k: 0 }, &mut out);
    out
}

pub fn run_case(rng: &mut Rng, maxops: u64, o: GenOpts) -> String {
    if o.blobreuse {
        return run_blobreuse(rng);
    }
    if o.inflight {
        return run_inflight(rng);
    }
    if o.invalid {
        return run_invalid(rng);
    }
    if o.tomblog {
        return run_tomblog(rng);
    }
    let cfg = gen_cfg(rng, o);
    let mut out = cfg.line();
    out.push('\n');
    *crate::CUR_TRACE.lock() = out.clone();
    let mut ex = HExec::new(cfg);
    let n = rng.range(2, maxops);
    for _ in 0..n {
        let op = gen_op(rng, &ex, o);
        out.push_str(&ex.exec(&op));
        out.push('\n');
    }
    // epilogue: let everything drain, then read every key
    for op in [HOp::Unhold, HOp::ReleaseAll, HOp::Wait] {
        if ex.enabled(&op) {
            out.push_str(&ex.exec(&op));
            out.push('\n');
        }
    }
    for k in 0..ex.cfg.keys {
        out.push_str(&ex.exec(&HOp::Get { k }));
        out.push('\n');
    }
    out
}

pub fn parse_op(f: &BTreeMap<String, String>) -> Option<HOp> {
    let n = |k: &str| f.get(k).and_then(|v| v.parse::<u64>().ok()).unwrap_or(0);
    let c = |k: &str, d: char| f.get(k).and_then(|v| v.chars().next()).unwrap_or(d);
    Some(match f.get("op").map(|s| s.as_str())? {
        "ins" => HOp::Ins { k: n("k"), sz: c("sz", 's'), loc: c("loc", '-') },
        "wins" => HOp::WIns { k: n("k"), sz: c("sz", 's'), force: n("force") == 1 },
        "rm" => HOp::Rm { k: n("k") },
        "clear" => HOp::Clear,
        "get" => HOp::Get { k: n("k") },
        "fetch" => HOp::Fetch { k: n("k") },
        "evict" => HOp::Evict,
        "contains" => HOp::Contains { k: n("k") },
        "wait" => HOp::Wait,
        "hold" => HOp::Hold,
        "unhold" => HOp::Unhold,
        "gate" => HOp::Gate,
        "releasebatch" => HOp::ReleaseBatch,
        "releaseall" => HOp::ReleaseAll,
        "reopen" => if f.get("raced").map(|s| s == "1").unwrap_or(false) { HOp::ReopenRaced } else { HOp::Reopen },
        _ => return None,
    })
}

pub fn replay(text: &str) -> String {
    let mut out = String::new();
    let mut ex: Option<HExec> = None;
    for line in text.lines() {
        let f = fields(line);
        if f.contains_key("cfg") {
            let cfg = HybCfg::parse(line);
            out.push_str(&cfg.line());
            out.push('\n');
            *crate::CUR_TRACE.lock() = cfg.line() + "\n";
            ex = Some(HExec::new(cfg));
            continue;
        }
        let Some(ex) = ex.as_mut() else { continue };
        let Some(op) = parse_op(&f) else { continue };
        if !ex.enabled(&op) {
            continue;
        }
        out.push_str(&ex.exec(&op));
        out.push('\n');
    }
    out
}

pub fn main(args: &Args) -> i32 {
    if let Some(path) = args.get("replay") {
        let text = std::fs::read_to_string(path).expect("read replay file");
        let mut cur = String::new();
        for line in text.lines() {
            if line.starts_with("cfg ") && !cur.is_empty() {
                print!("{}", replay(&cur));
                cur.clear();
            }
            cur.push_str(line);
            cur.push('\n');
        }
        if !cur.is_empty() {
            print!("{}", replay(&cur));
        }
        return 0;
    }
    let seed = arg_u64(args, "seed", 0);
    let cases = arg_u64(args, "cases", 50);
    let maxops = arg_u64(args, "maxops", 25);
    let o = GenOpts {
        big: arg_u64(args, "big", 0) == 1,
        reopen: arg_u64(args, "reopen", 0) == 1,
        collide: arg_u64(args, "collide", 0) == 1,
        overload: arg_u64(args, "overload", 0) == 1,
        nodel: arg_u64(args, "nodel", 0) == 1,
        reins: arg_u64(args, "reins", 0) == 1,
        blobreuse: arg_u64(args, "blobreuse", 0) == 1,
        inflight: arg_u64(args, "inflight", 0) == 1,
        invalid: arg_u64(args, "invalid", 0) == 1,
        tomblog: arg_u64(args, "tomblog", 0) == 1,
    };
    let mut rng = Rng::new(seed ^ 0x4B1D);
    for _ in 0..cases {
        let mut r = rng.fork();
        let t = run_case(&mut r, maxops, o);
        crate::CUR_TRACE.lock().clear();
        print!("{t}");
    }
    let _ = Arc::new(0);
    0
}
