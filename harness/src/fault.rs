//! Fault-injection domain (C03): a workload runs on the real hybrid cache; then single-page faults (bit flip,
//! zeroed page, page swapped with another page of the same block / of another block, page replaced by an older
//! generation of itself) are applied to every page of the final device image, and random multi-fault sets; a
//! fresh store is opened on every damaged image (quiet recovery) and every key is read.
//!
//! Each fault is also described as a sequence of one-page "slice writes" (what the page now holds, in the
//! notation of the crash domain), so that the Lean driver can apply it to its image model.

use std::fmt::Write as _;

use crate::{
    Args, arg_u64,
    crash::{apply, describe, read_all},
    hyb::{BLOCK, HExec, HOp, HybCfg, PAGE},
    mem::HMode,
    rng::Rng,
    sim::WriteRec,
};

/// the one-page slice `page` (page index inside the partition) of what `w` wrote, as a write of its own
fn slice_of(w: &WriteRec, page: usize) -> WriteRec {
    let lo = page * PAGE - w.offset as usize;
    WriteRec { id: w.id, partition: w.partition, offset: (page * PAGE) as u64, data: w.data[lo..lo + PAGE].to_vec(), applied: true }
}

/// Describe a one-page slice: an index page stays an index page; of a data write only the entries that lie
/// entirely inside the page survive as readable entries, anything else is unreadable bytes.
fn describe_slice(w: &WriteRec, page: usize, tomb: bool) -> String {
    let whole = describe(w, tomb);
    let lo = page * PAGE - w.offset as usize;
    if let Some(es) = whole.strip_prefix("data:") {
        let mut keep = vec![];
        if es != "-" {
            for e in es.split(',') {
                let f: Vec<usize> = e.split('.').filter_map(|x| x.parse().ok()).collect();
                if f.len() == 6 && f[0] >= lo && f[0] + f[5] <= lo + PAGE {
                    keep.push(format!("{}.{}.{}.{}.{}.{}", f[0] - lo, f[1], f[2], f[3], f[4], f[5]));
                }
            }
        }
        return format!("data:{}", if keep.is_empty() { "-".to_string() } else { keep.join(",") });
    }
    if whole.starts_with("tomb:") {
        // slots are absolute: restrict to this page
        return describe(&slice_of(w, page), tomb);
    }
    whole
}

/// What a block partition holds, read off its bytes with the real primitive parsers: every page that is a valid
/// blob index, and every page boundary at which a well-formed entry (header, range, checksum) starts.
fn describe_block(bytes: &[u8]) -> String {
    use foyer_storage::verif::{BlobIndexReader, Checksummer, EntryHeader};
    let mut items = vec![];
    for page in 0..bytes.len() / PAGE {
        let off = page * PAGE;
        // the real parser is run on damaged bytes here as well: a panic is an observation, not a harness failure
        let parsed = match std::panic::catch_unwind(|| BlobIndexReader::read(&bytes[off..off + PAGE])) {
            Ok(r) => r,
            Err(_) => {
                items.push(format!("X:{off}:index-reader-panicked"));
                continue;
            }
        };
        if let Some(es) = parsed {
            // an all-zero count with a matching checksum cannot occur for a zero page (its checksum is not zero)
            items.push(format!(
                "I:{off}:{}",
                if es.is_empty() { "_".to_string() } else { es.iter().map(|e| format!("{}.{}.{}.{}", e.hash, e.sequence, e.offset, e.len)).collect::<Vec<_>>().join(",") }
            ));
            continue;
        }
        let hl = EntryHeader::serialized_len();
        let Ok(h) = EntryHeader::read(&bytes[off..off + hl]) else { continue };
        let (kl, vl) = (h.key_len as usize, h.value_len as usize);
        if off + hl + kl + vl > bytes.len() || kl != 8 || vl < 8 + 16 {
            continue;
        }
        if Checksummer::checksum64(&bytes[off + hl..off + hl + vl + kl]) != h.checksum {
            continue;
        }
        let key = u64::from_le_bytes(bytes[off + hl + vl..off + hl + vl + 8].try_into().unwrap());
        let (vk, ver) = crate::hyb::parse_value(&bytes[off + hl + 8..off + hl + vl]);
        let intact = crate::hyb::value_intact(&bytes[off + hl + 8..off + hl + vl]);
        // a header whose compression tag no longer says "none" passes the checksum (which covers the stored bytes
        // only) and then fails to decompress: `load` answers with an error (allowed by C03), the index keeps the entry
        let undecodable = !matches!(h.compression, foyer_storage::Compression::None);
        let shown = if undecodable { u64::MAX - 1 } else if vk == key && intact { ver } else { u64::MAX };
        items.push(format!("E:{off}:{}.{}.{key}.{}.{}", h.hash, h.sequence, shown, hl + kl + vl));
    }
    if items.is_empty() { "-".to_string() } else { items.join(";") }
}

fn describe_tomb(bytes: &[u8]) -> String {
    let mut slots = vec![];
    for (i, c) in bytes.chunks_exact(16).enumerate() {
        let h = u64::from_be_bytes(c[0..8].try_into().unwrap());
        let q = u64::from_be_bytes(c[8..16].try_into().unwrap());
        if h != 0 || q != 0 {
            slots.push(format!("{i}.{h}.{q}"));
        }
    }
    if slots.is_empty() { "-".to_string() } else { slots.join(",") }
}

struct Gen {
    /// successive contents of every (partition, page): index into the write log of the write that produced it
    hist: Vec<Vec<Vec<usize>>>,
}

pub fn run_case(rng: &mut Rng, maxops: u64) -> String {
    let tomb = rng.chance(1, 2);
    let cfg = HybCfg {
        woi: rng.chance(1, 2),
        foc: true,
        tomb,
        memcap: rng.range(1, 3) as usize,
        lru: false,
        blocks: 6,
        flushers: 1,
        lossy: false,
        thr: 1,
        reclaimers: 1,
        reins: 0,
        bsize: BLOCK,
        domain: "fault".into(),
        hmode: HMode::Id,
        keys: rng.range(2, 4),
    };
    let mut out = cfg.line();
    out.push('\n');
    *crate::CUR_TRACE.lock() = out.clone();
    let mut ex = HExec::new(cfg.clone());
    let n = rng.range(3, maxops);
    let keys = cfg.keys;
    let mut described = 0u64;
    for _ in 0..n {
        let op = loop {
            let op = match rng.below(100) {
                0..=49 => HOp::Ins { k: rng.below(keys), sz: *rng.pick(&['s', 's', 'm', 'o', 'l']), loc: '-' },
                50..=59 => HOp::WIns { k: rng.below(keys), sz: 's', force: true },
                60..=69 => HOp::Rm { k: rng.below(keys) },
                70..=79 => HOp::Wait,
                80..=89 => HOp::Evict,
                _ => HOp::Get { k: rng.below(keys) },
            };
            if ex.enabled(&op) {
                break op;
            }
        };
        let mut line = ex.exec(&op);
        let ws = ex.sim.log_since(described);
        described = ex.sim.next_id();
        let wr: Vec<String> = ws.iter().map(|w| format!("{}@{}@{}@{}@{}", w.id, w.partition, w.offset, w.data.len(), describe(w, tomb))).collect();
        let ann = format!(" wr={}", if wr.is_empty() { "-".to_string() } else { wr.join("|") });
        line.push_str(&ann);
        {
            let mut t = crate::CUR_TRACE.lock();
            if t.ends_with('\n') {
                t.pop();
            }
            t.push_str(&ann);
            t.push('\n');
        }
        out.push_str(&line);
        out.push('\n');
    }
    // a graceful close first: the image is that of a cleanly shut down store
    let line = ex.exec(&HOp::Reopen);
    let ws = ex.sim.log_since(described);
    let wr: Vec<String> = ws.iter().map(|w| format!("{}@{}@{}@{}@{}", w.id, w.partition, w.offset, w.data.len(), describe(w, tomb))).collect();
    let _ = writeln!(out, "{line} wr={}", if wr.is_empty() { "-".to_string() } else { wr.join("|") });
    let log = ex.sim.log_since(0);
    let nparts = cfg.blocks + if tomb { 1 } else { 0 };
    let part_size = |p: usize| if tomb && p == 0 { PAGE } else { BLOCK };
    drop(ex);
    let mut image: Vec<Vec<u8>> = (0..nparts).map(|p| vec![0u8; part_size(p)]).collect();
    let mut g = Gen { hist: (0..nparts).map(|p| vec![vec![]; part_size(p) / PAGE]).collect() };
    for (i, w) in log.iter().enumerate() {
        apply(&mut image, w, w.data.len());
        let first = w.offset as usize / PAGE;
        for j in 0..w.data.len() / PAGE {
            g.hist[w.partition as usize][first + j].push(i);
        }
    }
    // the content of a page as a slice write ("never written" = zeros)
    let current = |p: usize, page: usize, gen_back: usize| -> Option<WriteRec> {
        let h = &g.hist[p][page];
        if h.len() <= gen_back {
            return None;
        }
        Some(slice_of(&log[h[h.len() - 1 - gen_back]], page))
    };
    let zero = |p: usize, page: usize| WriteRec { id: 0, partition: p as u32, offset: (page * PAGE) as u64, data: vec![0u8; PAGE], applied: true };
    let desc = |src: &Option<(usize, usize)>, p: usize, page: usize, w: &WriteRec| -> String {
        // `src` = where the content came from (partition, page) for descriptions that depend on position
        let _ = src;
        let h = &g.hist[w.partition as usize];
        let _ = h;
        format!("0@{p}@{}@{}@{}", page * PAGE, PAGE, describe_slice(w, w.offset as usize / PAGE, tomb))
    };
    let first_block = if tomb { 1 } else { 0 };
    let mut faults: Vec<(String, Vec<(usize, usize, Vec<u8>, String)>)> = vec![];
    for p in 0..nparts {
        for page in 0..part_size(p) / PAGE {
            let cur = current(p, page, 0);
            // zeroed page
            faults.push((format!("zero:{p}:{page}"), vec![(p, page, vec![0u8; PAGE], format!("0@{p}@{}@{}@garbage:-", page * PAGE, PAGE))]));
            // bit flip inside the meaningful bytes of the page (if it holds any)
            if let Some(w) = &cur {
                let d = describe_slice(w, page, tomb);
                // page-relative byte ranges whose corruption the reader must notice
                let mut ranges: Vec<(usize, usize)> = vec![];
                if d.starts_with("index:") || d.starts_with("tomb:") {
                    ranges.push((0, PAGE));
                } else {
                    // the write this page comes from, and the entries that cover bytes of the page
                    let h = &g.hist[p][page];
                    let src = &log[h[h.len() - 1]];
                    let whole = describe(src, tomb);
                    if let Some(es) = whole.strip_prefix("data:") {
                        if es != "-" {
                            for e in es.split(',') {
                                let f: Vec<usize> = e.split('.').filter_map(|x| x.parse().ok()).collect();
                                if f.len() == 6 {
                                    let (a, b) = (src.offset as usize + f[0], src.offset as usize + f[0] + f[5]);
                                    let (lo, hi) = (page * PAGE, (page + 1) * PAGE);
                                    if a < hi && b > lo {
                                        // bytes 8..24 of the header (hash, sequence) are neither covered by the entry
                                        // checksum nor used by `load`: a flip there is invisible and harmless
                                        if a >= lo {
                                            ranges.push((a - lo, a - lo + 8));
                                            ranges.push((a - lo + 24, b.min(hi) - lo));
                                        } else {
                                            ranges.push((0, b.min(hi) - lo));
                                        }
                                    }
                                }
                            }
                        }
                    }
                }
                let total: usize = ranges.iter().map(|(a, b)| b - a).sum();
                if total > 0 {
                    let mut pick = rng.below(total as u64) as usize;
                    let mut byte = 0;
                    for (a, b) in &ranges {
                        if pick < b - a {
                            byte = a + pick;
                            break;
                        }
                        pick -= b - a;
                    }
                    let bit = byte * 8 + rng.below(8) as usize;
                    let mut bytes = w.data.clone();
                    bytes[bit / 8] ^= 1 << (bit % 8);
                    let tag = if p < first_block { "tombflip" } else { "flip" };
                    faults.push((format!("{tag}:{p}:{page}:{bit}"), vec![(p, page, bytes, format!("0@{p}@{}@{}@garbage:-", page * PAGE, PAGE))]));
                }
            }
            if p >= first_block {
                // swap with the next page of the same block, and with the same page of the next block
                for (tag, p2, page2) in [("swapw", p, (page + 1) % (BLOCK / PAGE)), ("swapx", first_block + (p - first_block + 1) % cfg.blocks, page)] {
                    let a = current(p, page, 0).unwrap_or_else(|| zero(p, page));
                    let b = current(p2, page2, 0).unwrap_or_else(|| zero(p2, page2));
                    faults.push((
                        format!("{tag}:{p}:{page}:{p2}:{page2}"),
                        vec![
                            (p, page, b.data.clone(), desc(&Some((p2, page2)), p, page, &b)),
                            (p2, page2, a.data.clone(), desc(&Some((p, page)), p2, page2, &a)),
                        ],
                    ));
                }
                // an older generation of the same page
                for back in 1..=2 {
                    if let Some(old) = current(p, page, back) {
                        faults.push((format!("stale:{p}:{page}:{back}"), vec![(p, page, old.data.clone(), desc(&None, p, page, &old))]));
                    }
                }
            }
        }
    }
    // random multi-fault sets
    let singles = faults.len();
    for _ in 0..(singles / 4).max(4) {
        let k = rng.range(2, 4) as usize;
        let mut parts = vec![];
        let mut name = vec![];
        for _ in 0..k {
            let (n, f) = &faults[rng.below(singles as u64) as usize];
            name.push(n.clone());
            parts.extend(f.iter().cloned());
        }
        faults.push((format!("multi:{}", name.join("+")), parts));
    }
    for (name, parts) in faults {
        let text = format!("op=fault kind={name}");
        crate::progress(&text);
        let mut img = image.clone();
        for (p, page, bytes, _) in &parts {
            img[*p][page * PAGE..(page + 1) * PAGE].copy_from_slice(bytes);
        }
        let c2 = cfg.clone();
        let opened = std::panic::catch_unwind(std::panic::AssertUnwindSafe(|| {
            let mut ex2 = HExec::with_image(c2, Some(&img));
            let r = read_all(&mut ex2);
            r
        }));
        // the damaged partitions, re-described from their bytes
        let mut touched: Vec<usize> = parts.iter().map(|(p, ..)| *p).collect();
        touched.sort();
        touched.dedup();
        let fw: Vec<String> = touched
            .iter()
            .map(|p| if *p < first_block { format!("T@{p}@{}", describe_tomb(&img[*p])) } else { format!("B@{p}@{}", describe_block(&img[*p])) })
            .collect();
        let line = match opened {
            Err(_) => format!("{text} open=panic reads=- fw={}", fw.join("|")),
            Ok(reads) => format!("{text} open=ok reads={reads} fw={}", fw.join("|")),
        };
        crate::CUR_OP.lock().clear();
        out.push_str(&line);
        out.push('\n');
        let mut t = crate::CUR_TRACE.lock();
        t.push_str(&line);
        t.push('\n');
    }
    crate::CUR_TRACE.lock().clear();
    out
}

pub fn main(args: &Args) -> i32 {
    let seed = arg_u64(args, "seed", 0);
    let cases = arg_u64(args, "cases", 5);
    let maxops = arg_u64(args, "maxops", 14);
    let mut rng = Rng::new(seed ^ 0xFA17);
    for _ in 0..cases {
        let mut r = rng.fork();
        print!("{}", run_case(&mut r, maxops));
    }
    0
}
