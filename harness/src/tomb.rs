//! Tombstone-log domain (C10): the real `TombstoneLog` on an `FsDevice` + `PsyncIoEngine`.
//! After every operation the raw partition file is decoded (slot by slot) and printed.

use std::{fmt::Write as _, sync::Arc};

use foyer_common::spawn::Spawner;
use foyer_storage::{
    DeviceBuilder, FsDeviceBuilder, IoEngine, IoEngineConfig, PsyncIoEngineConfig,
    verif::{IoEngineBuildContext, PAGE, Partition, Tombstone, TombstoneLog},
};

use crate::{Args, arg_u64, mem::fields, rng::Rng};

#[derive(Clone, Debug)]
pub enum TOp {
    Append(u64),
    Reopen,
}

struct Exec {
    rt: tokio::runtime::Runtime,
    _dir: tempfile::TempDir,
    partition: Arc<dyn Partition>,
    engine: Arc<dyn IoEngine>,
    log: TombstoneLog,
    pages: usize,
    next_seq: u64,
    path: std::path::PathBuf,
}

fn decode_slots(path: &std::path::Path, pages: usize) -> Vec<(usize, u64, u64)> {
    let bytes = std::fs::read(path).unwrap();
    let mut v = vec![];
    for i in 0..(pages * PAGE / 16) {
        let b = &bytes[i * 16..i * 16 + 16];
        let hash = u64::from_be_bytes(b[0..8].try_into().unwrap());
        let seq = u64::from_be_bytes(b[8..16].try_into().unwrap());
        if hash != 0 || seq != 0 {
            v.push((i, hash, seq));
        }
    }
    v
}

impl Exec {
    fn new(pages: usize) -> (Self, String) {
        let rt = tokio::runtime::Builder::new_current_thread().enable_all().build().unwrap();
        let dir = tempfile::tempdir().unwrap();
        let device = FsDeviceBuilder::new(dir.path()).with_capacity(pages * PAGE).build().unwrap();
        let partition = device.create_partition(pages * PAGE).unwrap();
        let path = dir.path().join("foyer-storage-direct-fs-00000000");
        let (engine, log, rec) = rt.block_on(async {
            let engine = PsyncIoEngineConfig::new().boxed().build(IoEngineBuildContext { spawner: Spawner::current() }).await.unwrap();
            let mut rec = vec![];
            let log = TombstoneLog::open(vec![partition.clone()], engine.clone(), &mut rec).await.unwrap();
            (engine, log, rec)
        });
        let line = format!("recovered={}", show(rec.iter().map(|t| format!("{}:{}", t.hash, t.sequence)).collect()));
        (Exec { rt, _dir: dir, partition, engine, log, pages, next_seq: 1, path }, line)
    }

    fn exec(&mut self, op: &TOp) -> String {
        let mut line = String::new();
        match op {
            TOp::Append(n) => {
                let ts: Vec<Tombstone> = (0..*n)
                    .map(|i| Tombstone { hash: 1000 + self.next_seq + i, sequence: self.next_seq + i })
                    .collect();
                let _ = write!(line, "op=append n={n} from={}", self.next_seq);
                self.next_seq += n;
                let log = self.log.clone();
                self.rt.block_on(async move { log.append(ts.iter()).await.unwrap() });
            }
            TOp::Reopen => {
                let (p, e) = (self.partition.clone(), self.engine.clone());
                let (log, rec) = self.rt.block_on(async move {
                    let mut rec = vec![];
                    let log = TombstoneLog::open(vec![p], e, &mut rec).await.unwrap();
                    (log, rec)
                });
                self.log = log;
                let _ = write!(line, "op=reopen recovered={}", show(rec.iter().map(|t| format!("{}:{}", t.hash, t.sequence)).collect()));
            }
        }
        let slots = decode_slots(&self.path, self.pages);
        // the whole slot table can be long: print a digest of it plus the populated range
        let _ = write!(line, " nslots={} slots={}", slots.len(), show(slots.iter().map(|(i, h, s)| format!("{i}:{h}:{s}")).collect()));
        line
    }
}

fn show(v: Vec<String>) -> String {
    if v.is_empty() { "-".into() } else { v.join(";") }
}

pub fn run_case(rng: &mut Rng) -> String {
    let pages = rng.range(1, 3) as usize;
    let cap = (pages * 256) as u64;
    let mut out = format!("cfg domain=tomb pages={pages}\n");
    let (mut ex, first) = Exec::new(pages);
    let _ = writeln!(out, "op=open {first} nslots=0 slots=-");
    let nops = rng.range(2, 8);
    let mut total = 0u64;
    // stay below the capacity in most cases; sometimes wrap on purpose
    let wrap = rng.chance(1, 6);
    for _ in 0..nops {
        let op = if rng.chance(2, 5) {
            TOp::Reopen
        } else {
            let room = if wrap { cap + 40 } else { cap - 1 };
            if total >= room {
                TOp::Reopen
            } else {
                let n = match rng.below(4) {
                    0 => 1,
                    1 => rng.range(1, 5),
                    2 => rng.range(200, 300),
                    _ => rng.range(1, 600),
                }
                .min(room - total)
                .max(1);
                total += n;
                TOp::Append(n)
            }
        };
        out.push_str(&ex.exec(&op));
        out.push('\n');
    }
    out.push_str(&ex.exec(&TOp::Reopen));
    out.push('\n');
    out
}

pub fn replay(text: &str) -> String {
    let mut out = String::new();
    let mut ex: Option<Exec> = None;
    for line in text.lines() {
        let f = fields(line);
        if f.contains_key("cfg") {
            let pages: usize = f.get("pages").and_then(|v| v.parse().ok()).unwrap_or(1);
            let _ = writeln!(out, "cfg domain=tomb pages={pages}");
            let (e, first) = Exec::new(pages);
            let _ = writeln!(out, "op=open {first} nslots=0 slots=-");
            ex = Some(e);
            continue;
        }
        let Some(ex) = ex.as_mut() else { continue };
        let op = match f.get("op").map(|s| s.as_str()) {
            Some("append") => TOp::Append(f.get("n").and_then(|v| v.parse().ok()).unwrap_or(1)),
            Some("reopen") => TOp::Reopen,
            _ => continue,
        };
        out.push_str(&ex.exec(&op));
        out.push('\n');
    }
    out
}

pub fn main(args: &Args) -> i32 {
    if let Some(path) = args.get("replay") {
        let text = std::fs::read_to_string(path).expect("read replay file");
        let mut cur = String::new();
        for line in text.lines() {
            if line.starts_with("cfg ") && !cur.is_empty() {
                print!("{}", replay(&cur));
                cur.clear();
            }
            cur.push_str(line);
            cur.push('\n');
        }
        if !cur.is_empty() {
            print!("{}", replay(&cur));
        }
        return 0;
    }
    let seed = arg_u64(args, "seed", 0);
    let cases = arg_u64(args, "cases", 50);
    let mut rng = Rng::new(seed ^ 0x70AB);
    for _ in 0..cases {
        let mut r = rng.fork();
        print!("{}", run_case(&mut r));
    }
    0
}
