//! verif-harness: drives the real foyer code and prints traces for the Lean model driver.
//!
//! usage: verif-harness <domain> [key=value ...]

mod codec;
mod infl;
mod mem;
mod memc;
mod rng;
mod tomb;

use std::collections::BTreeMap;

pub type Args = BTreeMap<String, String>;

pub fn arg_u64(a: &Args, k: &str, d: u64) -> u64 {
    a.get(k).and_then(|v| v.parse().ok()).unwrap_or(d)
}
pub fn arg_str<'a>(a: &'a Args, k: &str, d: &'a str) -> &'a str {
    a.get(k).map(|s| s.as_str()).unwrap_or(d)
}

fn main() {
    let mut it = std::env::args().skip(1);
    let domain = it.next().unwrap_or_default();
    let mut args = Args::new();
    for a in it {
        if let Some((k, v)) = a.split_once('=') {
            args.insert(k.to_string(), v.to_string());
        }
    }
    let code = match domain.as_str() {
        "mem" => mem::main(&args),
        "memc" => memc::main(&args),
        "infl" => infl::main(&args),
        "codec" => codec::main(&args),
        "tomb" => tomb::main(&args),
        _ => {
            eprintln!("unknown domain {domain:?}");
            2
        }
    };
    std::process::exit(code);
}
