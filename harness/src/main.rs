//! verif-harness: drives the real foyer code and prints traces for the Lean model driver.
//!
//! usage: verif-harness <domain> [key=value ...]

mod codec;
mod crash;
mod fault;
mod hyb;
mod lay;
mod infl;
mod mem;
mod memc;
mod rng;
mod sim;
mod tomb;

use std::collections::BTreeMap;

pub type Args = BTreeMap<String, String>;

/// Watchdog state: the trace of the case being executed, the operation in progress, a progress
/// counter.  When nothing progresses for `watchdog=<secs>` (default 45) the case is reported as
/// deadlocked: the partial trace is printed with a final `ret=deadlock` line and the process exits 3.
pub static PROGRESS: std::sync::atomic::AtomicU64 = std::sync::atomic::AtomicU64::new(0);
pub static CUR_TRACE: parking_lot::Mutex<String> = parking_lot::Mutex::new(String::new());
pub static CUR_OP: parking_lot::Mutex<String> = parking_lot::Mutex::new(String::new());

pub fn progress(op: &str) {
    *CUR_OP.lock() = op.to_string();
    PROGRESS.fetch_add(1, std::sync::atomic::Ordering::SeqCst);
}

fn spawn_watchdog(secs: u64) {
    std::thread::spawn(move || {
        let mut last = PROGRESS.load(std::sync::atomic::Ordering::SeqCst);
        let mut idle = 0u64;
        loop {
            std::thread::sleep(std::time::Duration::from_millis(500));
            let now = PROGRESS.load(std::sync::atomic::Ordering::SeqCst);
            if now != last {
                last = now;
                idle = 0;
                continue;
            }
            idle += 1;
            if idle >= secs * 2 && !CUR_OP.lock().is_empty() {
                let t = CUR_TRACE.lock().clone();
                let op = CUR_OP.lock().clone();
                print!("{t}");
                println!("{op} ret=deadlock");
                std::process::exit(3);
            }
        }
    });
}

pub fn arg_u64(a: &Args, k: &str, d: u64) -> u64 {
    a.get(k).and_then(|v| v.parse().ok()).unwrap_or(d)
}
pub fn arg_str<'a>(a: &'a Args, k: &str, d: &'a str) -> &'a str {
    a.get(k).map(|s| s.as_str()).unwrap_or(d)
}

fn main() {
    let mut it = std::env::args().skip(1);
    let domain = it.next().unwrap_or_default();
    let mut args = Args::new();
    for a in it {
        if let Some((k, v)) = a.split_once('=') {
            args.insert(k.to_string(), v.to_string());
        }
    }
    spawn_watchdog(arg_u64(&args, "watchdog", 45));
    let code = match domain.as_str() {
        "mem" => mem::main(&args),
        "memc" => memc::main(&args),
        "infl" => infl::main(&args),
        "codec" => codec::main(&args),
        "tomb" => tomb::main(&args),
        "hyb" | "blk" => hyb::main(&args),
        "lay" => lay::main(&args),
        "crash" => crash::main(&args),
        "fault" => fault::main(&args),
        _ => {
            eprintln!("unknown domain {domain:?}");
            2
        }
    };
    std::process::exit(code);
}
