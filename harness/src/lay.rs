//! Layout domain, unit level (C07): the real `Splitter::split` with its `SplitCtx` carried from batch
//! to batch, driven with synthetic entry lengths.  Every line reports the blob parts the splitter
//! produced (block index within the batch, blob offset, part offset, data length), the blob index
//! page of every part as decoded by the real `BlobIndexReader`, and the position of every entry.

use std::fmt::Write as _;

use foyer_storage::verif::{BlobIndexReader, BufferEntryInfo, IoSliceMut, PAGE, SplitCtx, Splitter};

use crate::{Args, arg_u64, mem::fields, rng::Rng};

fn align_up(n: usize) -> usize {
    n.div_ceil(PAGE) * PAGE
}

pub struct LayExec {
    block: usize,
    index: usize,
    ctx: SplitCtx,
    next_seq: u64,
}

fn show(v: Vec<String>) -> String {
    if v.is_empty() { "-".into() } else { v.join(";") }
}

impl LayExec {
    pub fn new(block: usize, index: usize) -> Self {
        LayExec { block, index, ctx: SplitCtx::new(block, index), next_seq: 1 }
    }

    pub fn cfg_line(&self) -> String {
        format!("cfg domain=lay block={} index={}", self.block, self.index)
    }

    pub fn batch(&mut self, lens: &[usize]) -> String {
        let mut line = format!("op=batch from={} lens={}", self.next_seq, show(lens.iter().map(|l| l.to_string()).collect()));
        crate::progress(&line);
        let total: usize = lens.iter().map(|l| align_up(*l)).sum();
        let bytes = IoSliceMut::new(total.max(PAGE)).into_io_slice();
        let mut infos = vec![];
        let mut off = 0;
        for l in lens {
            infos.push(BufferEntryInfo { hash: 1000 + self.next_seq, sequence: self.next_seq, offset: off, len: *l });
            off += align_up(*l);
            self.next_seq += 1;
        }
        let res = std::panic::catch_unwind(std::panic::AssertUnwindSafe(|| Splitter::split(&mut self.ctx, bytes, infos)));
        let batch = match res {
            Ok(b) => b,
            Err(_) => {
                line.push_str(" ret=panic");
                return line;
            }
        };
        let mut parts = vec![];
        let mut idx = vec![];
        let mut pos = vec![];
        for (bi, block) in batch.blocks.iter().enumerate() {
            for p in &block.blob_parts {
                parts.push(format!("{bi}:{}:{}:{}:{}", p.blob_block_offset, p.part_blob_offset, p.data.len(), p.indices.len()));
                let decoded = BlobIndexReader::read(&p.index[..]);
                match decoded {
                    Some(es) => idx.push(format!(
                        "{bi}:{}:{}",
                        p.blob_block_offset,
                        if es.is_empty() { "_".to_string() } else { es.iter().map(|e| format!("{}.{}.{}.{}", e.hash, e.sequence, e.offset, e.len)).collect::<Vec<_>>().join(",") }
                    )),
                    None => idx.push(format!("{bi}:{}:BAD", p.blob_block_offset)),
                }
                for e in &p.indices {
                    pos.push(format!("{}:{bi}:{}:{}", e.sequence, p.blob_block_offset + e.offset as usize, e.len));
                }
            }
        }
        let _ = write!(line, " ret=ok nblocks={} parts={} idx={} pos={}", batch.blocks.len(), show(parts), show(idx), show(pos));
        line
    }
}

fn gen_len(rng: &mut Rng, block: usize, index: usize) -> usize {
    let max = block - index;
    match rng.below(10) {
        0 => 1,
        1 => PAGE,
        2 => PAGE + 1,
        3 => max,
        4 => max - PAGE + 1,
        5 => rng.range(1, max as u64) as usize,
        _ => rng.range(1, (3 * PAGE) as u64) as usize,
    }
}

pub fn run_case(rng: &mut Rng, maxops: u64) -> String {
    // small blocks reach "block full" quickly; a 1 MiB block with a 4 KiB index reaches "index full" (170 entries)
    let (block, index) = *rng.pick(&[
        (16 * 1024usize, 4096usize),
        (32 * 1024, 4096),
        (32 * 1024, 8192),
        (64 * 1024, 4096),
        (1024 * 1024, 4096),
        (1024 * 1024, 4096),
    ]);
    let mut ex = LayExec::new(block, index);
    let mut out = ex.cfg_line();
    out.push('\n');
    *crate::CUR_TRACE.lock() = out.clone();
    let n = rng.range(1, maxops);
    let cap = (index - 12) / 24;
    for _ in 0..n {
        let lens: Vec<usize> = if block >= 1024 * 1024 {
            // many one-page entries: fill the blob index exactly / nearly / beyond
            let k = match rng.below(6) {
                0 => cap,
                1 => cap - 1,
                2 => cap + 1,
                3 => rng.range(1, 5) as usize,
                _ => rng.range(1, 2 * cap as u64) as usize,
            };
            (0..k).map(|_| if rng.chance(1, 20) { rng.range(1, 3 * PAGE as u64) as usize } else { rng.range(1, PAGE as u64) as usize }).collect()
        } else {
            let k = rng.range(1, 9) as usize;
            (0..k).map(|_| gen_len(rng, block, index)).collect()
        };
        let line = ex.batch(&lens);
        out.push_str(&line);
        out.push('\n');
        let mut t = crate::CUR_TRACE.lock();
        t.push_str(&line);
        t.push('\n');
    }
    crate::CUR_OP.lock().clear();
    crate::CUR_TRACE.lock().clear();
    out
}

pub fn replay(text: &str) -> String {
    let mut out = String::new();
    let mut ex: Option<LayExec> = None;
    for line in text.lines() {
        let f = fields(line);
        if f.contains_key("cfg") {
            let g = |k: &str, d: usize| f.get(k).and_then(|v| v.parse::<usize>().ok()).unwrap_or(d);
            let e = LayExec::new(g("block", 16384), g("index", 4096));
            out.push_str(&e.cfg_line());
            out.push('\n');
            *crate::CUR_TRACE.lock() = e.cfg_line() + "\n";
            ex = Some(e);
            continue;
        }
        let Some(ex) = ex.as_mut() else { continue };
        if f.get("op").map(|s| s.as_str()) == Some("batch") {
            let lens: Vec<usize> = f
                .get("lens")
                .map(|s| s.split(';').filter_map(|x| x.parse().ok()).collect())
                .unwrap_or_default();
            // keep the sequence numbering of the original trace when lines were removed by shrinking
            if let Some(from) = f.get("from").and_then(|v| v.parse::<u64>().ok()) {
                ex.next_seq = ex.next_seq.max(from);
            }
            let line = ex.batch(&lens);
            out.push_str(&line);
            out.push('\n');
            let mut t = crate::CUR_TRACE.lock();
            t.push_str(&line);
            t.push('\n');
        }
    }
    crate::CUR_OP.lock().clear();
    crate::CUR_TRACE.lock().clear();
    out
}

pub fn main(args: &Args) -> i32 {
    if let Some(path) = args.get("replay") {
        let text = std::fs::read_to_string(path).expect("read replay file");
        let mut cur = String::new();
        for line in text.lines() {
            if line.starts_with("cfg ") && !cur.is_empty() {
                print!("{}", replay(&cur));
                cur.clear();
            }
            cur.push_str(line);
            cur.push('\n');
        }
        if !cur.is_empty() {
            print!("{}", replay(&cur));
        }
        return 0;
    }
    let seed = arg_u64(args, "seed", 0);
    let cases = arg_u64(args, "cases", 100);
    let maxops = arg_u64(args, "maxops", 12);
    let mut rng = Rng::new(seed ^ 0x1A70);
    for _ in 0..cases {
        let mut r = rng.fork();
        print!("{}", run_case(&mut r, maxops));
    }
    0
}
