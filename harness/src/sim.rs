//! A deterministic io engine for the real block engine (feature `verif` of foyer-storage re-exports the
//! buffer / partition types the `IoEngine` trait mentions).
//!
//! * every write is recorded, in issue order, in a write log (partition, offset, bytes);
//! * completions can be gated: a gated write takes effect on the device file (and resolves) only when
//!   the harness releases it, in any order the harness chooses;
//! * reads are served from the device file immediately.
//!
//! The device itself is the ordinary `FsDevice` (one file per partition) in a temporary directory.

use std::{
    fmt::Debug,
    os::unix::fs::FileExt,
    sync::Arc,
};

use foyer_common::error::{Error, Result};
use foyer_storage::{
    IoEngine, IoEngineConfig, IoHandle,
    verif::{IoB, IoBuf, IoBufMut, IoEngineBuildContext, Partition},
};
use futures_util::{FutureExt, future::BoxFuture};
use parking_lot::Mutex;
use tokio::sync::oneshot;

#[derive(Clone, Debug)]
pub struct WriteRec {
    pub id: u64,
    pub partition: u32,
    pub offset: u64,
    pub data: Vec<u8>,
    pub applied: bool,
}

struct Pending {
    id: u64,
    fd: i32,
    file_offset: u64,
    tx: oneshot::Sender<()>,
}

#[derive(Default)]
pub struct SimState {
    pub log: Vec<WriteRec>,
    pending: Vec<Pending>,
    pub gated: bool,
    next_id: u64,
    pub reads: u64,
    pub read_bytes: u64,
    /// while set, device reads stay in flight (they complete, with the bytes the device holds *then*, on release)
    pub read_gated: bool,
    read_waiters: Vec<oneshot::Sender<()>>,
}

#[derive(Clone, Default)]
pub struct Sim {
    pub st: Arc<Mutex<SimState>>,
}

impl Debug for Sim {
    fn fmt(&self, f: &mut std::fmt::Formatter<'_>) -> std::fmt::Result {
        f.debug_struct("Sim").finish()
    }
}

fn pwrite(fd: i32, off: u64, data: &[u8]) -> std::io::Result<()> {
    use std::os::fd::FromRawFd;
    let file = std::mem::ManuallyDrop::new(unsafe { std::fs::File::from_raw_fd(fd) });
    file.write_all_at(data, off)
}

fn pread(fd: i32, off: u64, buf: &mut [u8]) -> std::io::Result<()> {
    use std::os::fd::FromRawFd;
    let file = std::mem::ManuallyDrop::new(unsafe { std::fs::File::from_raw_fd(fd) });
    file.read_exact_at(buf, off)
}

impl Sim {
    pub fn new() -> Self {
        Self::default()
    }

    pub fn set_gated(&self, on: bool) {
        self.st.lock().gated = on;
    }

    /// hold / release device reads
    pub fn set_read_gated(&self, on: bool) {
        let mut st = self.st.lock();
        st.read_gated = on;
        if !on {
            for tx in st.read_waiters.drain(..) {
                let _ = tx.send(());
            }
        }
    }

    pub fn reads_in_flight(&self) -> usize {
        self.st.lock().read_waiters.len()
    }

    /// ids of the writes that were issued but not yet applied, in issue order
    pub fn pending_ids(&self) -> Vec<u64> {
        self.st.lock().pending.iter().map(|p| p.id).collect()
    }

    /// the write-log records of the pending writes
    pub fn pending_recs(&self) -> Vec<WriteRec> {
        let st = self.st.lock();
        st.pending.iter().filter_map(|p| st.log.iter().find(|w| w.id == p.id).cloned()).collect()
    }

    /// Let write `id` take effect and complete.
    pub fn release(&self, id: u64) -> bool {
        let mut st = self.st.lock();
        let Some(pos) = st.pending.iter().position(|p| p.id == id) else { return false };
        let p = st.pending.remove(pos);
        let data = st.log.iter().find(|w| w.id == id).map(|w| w.data.clone()).unwrap_or_default();
        pwrite(p.fd, p.file_offset, &data).expect("device write");
        if let Some(w) = st.log.iter_mut().find(|w| w.id == id) {
            w.applied = true;
        }
        let _ = p.tx.send(());
        true
    }

    pub fn release_all(&self) {
        for id in self.pending_ids() {
            self.release(id);
        }
    }

    /// the write log entries with id >= `from`
    pub fn log_since(&self, from: u64) -> Vec<WriteRec> {
        self.st.lock().log.iter().filter(|w| w.id >= from).cloned().collect()
    }

    pub fn next_id(&self) -> u64 {
        self.st.lock().next_id
    }
}

#[derive(Debug)]
pub struct SimIoEngine {
    sim: Sim,
}

impl IoEngine for SimIoEngine {
    fn read(&self, mut buf: Box<dyn IoBufMut>, partition: &dyn Partition, offset: u64) -> IoHandle {
        let (raw, off) = partition.translate(offset);
        let gate = {
            let mut st = self.sim.st.lock();
            st.reads += 1;
            st.read_bytes += buf.len() as u64;
            if st.read_gated {
                let (tx, rx) = oneshot::channel();
                st.read_waiters.push(tx);
                Some(rx)
            } else {
                None
            }
        };
        if let Some(rx) = gate {
            let fd = raw.0;
            let fut: BoxFuture<'static, (Box<dyn IoB>, Result<()>)> = async move {
                let _ = rx.await;
                let res = pread(fd, off, &mut buf[..]).map_err(Error::io_error);
                let b: Box<dyn IoB> = buf.into_iob();
                (b, res)
            }
            .boxed();
            return fut.into();
        }
        let res = pread(raw.0, off, &mut buf[..]).map_err(Error::io_error);
        let fut: BoxFuture<'static, (Box<dyn IoB>, Result<()>)> = async move {
            let b: Box<dyn IoB> = buf.into_iob();
            (b, res)
        }
        .boxed();
        fut.into()
    }

    fn write(&self, buf: Box<dyn IoBuf>, partition: &dyn Partition, offset: u64) -> IoHandle {
        let (raw, off) = partition.translate(offset);
        let data = buf[..].to_vec();
        let mut st = self.sim.st.lock();
        let id = st.next_id;
        st.next_id += 1;
        let gated = st.gated;
        st.log.push(WriteRec { id, partition: partition.id(), offset, data: data.clone(), applied: !gated });
        if !gated {
            drop(st);
            let res = pwrite(raw.0, off, &data).map_err(Error::io_error);
            let fut: BoxFuture<'static, (Box<dyn IoB>, Result<()>)> = async move {
                let b: Box<dyn IoB> = buf.into_iob();
                (b, res)
            }
            .boxed();
            return fut.into();
        }
        let (tx, rx) = oneshot::channel();
        st.pending.push(Pending { id, fd: raw.0, file_offset: off, tx });
        drop(st);
        let fut: BoxFuture<'static, (Box<dyn IoB>, Result<()>)> = async move {
            let _ = rx.await;
            let b: Box<dyn IoB> = buf.into_iob();
            (b, Ok(()))
        }
        .boxed();
        fut.into()
    }
}

#[derive(Debug)]
pub struct SimIoEngineConfig {
    pub sim: Sim,
}

impl IoEngineConfig for SimIoEngineConfig {
    fn build(self: Box<Self>, _ctx: IoEngineBuildContext) -> BoxFuture<'static, Result<Arc<dyn IoEngine>>> {
        let sim = self.sim.clone();
        async move {
            let e: Arc<dyn IoEngine> = Arc::new(SimIoEngine { sim });
            Ok(e)
        }
        .boxed()
    }
}
