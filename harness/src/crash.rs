//! Crash-recovery domain (C04): a workload runs on the real hybrid cache over the recording sim io engine;
//! then, for every prefix of the device writes it issued (and for page-granular tears of the write at the
//! crash point), a device image is built, a fresh store is opened on it (quiet recovery) and every key is read.
//!
//! Every device write is printed with what it contains (entries of a data write, the decoded blob index page,
//! the slots of a tombstone page, or "clean"), so the Lean driver can run its recovery model on the same
//! prefixes.

use std::fmt::Write as _;

use foyer_storage::verif::{BlobIndexReader, EntryHeader};

use crate::{
    Args, arg_u64,
    hyb::{BLOCK, GenOpts, HExec, HOp, HybCfg, PAGE, parse_value},
    mem::HMode,
    rng::Rng,
    sim::WriteRec,
};

pub fn show(v: Vec<String>) -> String {
    if v.is_empty() { "-".into() } else { v.join(",") }
}

/// what a write contains, as far as recovery is concerned
pub fn describe(w: &WriteRec, tomb: bool) -> String {
    let first_block = if tomb { 1 } else { 0 };
    if w.partition < first_block {
        // tombstone log page(s): 16-byte slots (hash, sequence), big endian
        let mut slots = vec![];
        for (i, c) in w.data.chunks_exact(16).enumerate() {
            let h = u64::from_be_bytes(c[0..8].try_into().unwrap());
            let q = u64::from_be_bytes(c[8..16].try_into().unwrap());
            if h != 0 || q != 0 {
                slots.push(format!("{}.{h}.{q}", w.offset as usize / 16 + i));
            }
        }
        return format!("tomb:{}", show(slots));
    }
    if w.offset == 0 && w.data.len() == PAGE && w.data.iter().all(|b| *b == 0) {
        return "clean:-".into();
    }
    if w.offset % BLOCK as u64 == 0 && w.data.len() == PAGE {
        if let Some(es) = BlobIndexReader::read(&w.data[..]) {
            return format!(
                "index:{}",
                show(es.iter().map(|e| format!("{}.{}.{}.{}", e.hash, e.sequence, e.offset, e.len)).collect())
            );
        }
    }
    // data: entries start on page boundaries
    let mut ents = vec![];
    let mut off = 0usize;
    while off + EntryHeader::serialized_len() <= w.data.len() {
        let Ok(h) = EntryHeader::read(&w.data[off..off + EntryHeader::serialized_len()]) else { break };
        let start = off + EntryHeader::serialized_len();
        let (kl, vl) = (h.key_len as usize, h.value_len as usize);
        if start + kl + vl > w.data.len() || kl != 8 || vl < 8 + 16 {
            break;
        }
        // layout: header | value (8-byte length prefix + bytes) | key
        let key = u64::from_le_bytes(w.data[start + vl..start + vl + 8].try_into().unwrap());
        let (vk, ver) = parse_value(&w.data[start + 8..start + vl]);
        let len = EntryHeader::serialized_len() + kl + vl;
        ents.push(format!("{off}.{}.{}.{key}.{}.{len}", h.hash, h.sequence, if vk == key { ver } else { u64::MAX }));
        off += len.div_ceil(PAGE) * PAGE;
    }
    format!("data:{}", show(ents))
}

pub fn apply(parts: &mut [Vec<u8>], w: &WriteRec, bytes: usize) {
    let p = &mut parts[w.partition as usize];
    let o = w.offset as usize;
    p[o..o + bytes].copy_from_slice(&w.data[..bytes]);
}

pub fn read_all(ex: &mut HExec) -> String {
    let keys = ex.cfg.keys;
    let cache = ex.cache.clone().unwrap();
    let mut reads = vec![];
    for k in 0..keys {
        let c = cache.clone();
        let r = ex.rt.block_on(async move { c.get(&k).await.map(|o| o.map(|e| (parse_value(e.value()), crate::hyb::value_intact(e.value())))) });
        reads.push(match r {
            Ok(Some(((key, ver), intact))) => {
                if key != k {
                    format!("{k}:foreign")
                } else if !intact {
                    format!("{k}:damaged")
                } else {
                    format!("{k}:{ver}")
                }
            }
            Ok(None) => format!("{k}:miss"),
            // an error is a legitimate answer; a load task that died (a panic inside the load: its waiters are told
            // "fetch task cancelled" - nothing in this harness cancels tasks) is not
            Err(e) => if matches!(e.kind(), foyer::ErrorKind::TaskCancelled) { format!("{k}:panic") } else { format!("{k}:err") },
        });
    }
    reads.join(";")
}

pub fn run_case(rng: &mut Rng, maxops: u64) -> String {
    let tomb = rng.chance(1, 2);
    let reclaim = rng.chance(1, 4);
    let cfg = HybCfg {
        woi: rng.chance(1, 2),
        foc: true,
        tomb,
        memcap: rng.range(1, 3) as usize,
        lru: false,
        blocks: if reclaim { 4 } else { 12 },
        flushers: 1,
        lossy: reclaim,
        thr: 1,
        reclaimers: 1,
        reins: 0,
        bsize: BLOCK,
        domain: "crash".into(),
        hmode: HMode::Id,
        keys: rng.range(2, 4),
    };
    let mut out = cfg.line();
    out.push('\n');
    *crate::CUR_TRACE.lock() = out.clone();
    let mut ex = HExec::new(cfg.clone());
    let n = rng.range(3, maxops);
    let keys = cfg.keys;
    let mut described = 0u64;
    // one case in four starts with a delete that overtakes its own insert in the write queue
    // (it matters under write-on-insertion with the tombstone log: the delete must be logged although the key has
    // no indexed copy yet)
    let mut scripted: Vec<HOp> = if (cfg.woi && cfg.tomb && rng.chance(1, 2)) || rng.chance(1, 8) {
        let k = rng.below(keys);
        vec![HOp::Wait, HOp::Unhold, HOp::Rm { k }, HOp::Ins { k, sz: *rng.pick(&['s', 'n']), loc: '-' }, HOp::Hold]
    } else {
        vec![]
    };
    for _ in 0..n.max(scripted.len() as u64) {
        let op = loop {
            if let Some(op) = scripted.pop() {
                break op;
            }
            let op = match rng.below(100) {
                0..=44 => HOp::Ins { k: rng.below(keys), sz: *rng.pick(&['s', 's', 'm', 'n', 'l']), loc: '-' },
                45..=54 => HOp::WIns { k: rng.below(keys), sz: 's', force: true },
                55..=66 => HOp::Rm { k: rng.below(keys) },
                67..=78 => HOp::Wait,
                79..=86 => HOp::Evict,
                87..=91 => HOp::Hold,
                92..=96 => HOp::Unhold,
                _ => HOp::Get { k: rng.below(keys) },
            };
            if ex.enabled(&op) {
                break op;
            }
        };
        let mut line = ex.exec(&op);
        // annotate the writes of this operation
        let ws = ex.sim.log_since(described);
        described = ex.sim.next_id();
        let wr: Vec<String> = ws.iter().map(|w| format!("{}@{}@{}@{}@{}", w.id, w.partition, w.offset, w.data.len(), describe(w, tomb))).collect();
        let ann = format!(" wr={}", if wr.is_empty() { "-".to_string() } else { wr.join("|") });
        line.push_str(&ann);
        {
            // the watchdog prints CUR_TRACE: keep the annotation there too
            let mut t = crate::CUR_TRACE.lock();
            if t.ends_with('\n') {
                t.pop();
            }
            t.push_str(&ann);
            t.push('\n');
        }
        out.push_str(&line);
        out.push('\n');
    }
    if ex.held {
        out.push_str(&ex.exec(&HOp::Unhold));
        let ws = ex.sim.log_since(described);
        let wr: Vec<String> = ws.iter().map(|w| format!("{}@{}@{}@{}@{}", w.id, w.partition, w.offset, w.data.len(), describe(w, tomb))).collect();
        let _ = writeln!(out, " wr={}", if wr.is_empty() { "-".to_string() } else { wr.join("|") });
    }
    // the write log of the whole run
    let log = ex.sim.log_since(0);
    let nparts = cfg.blocks + if tomb { 1 } else { 0 };
    let part_size = |p: usize| if tomb && p == 0 { PAGE } else { BLOCK };
    drop(ex);
    // crash points: every write boundary, and page-granular tears of multi-page writes
    let mut image: Vec<Vec<u8>> = (0..nparts).map(|p| vec![0u8; part_size(p)]).collect();
    for i in 0..=log.len() {
        let mut variants: Vec<(usize, Vec<Vec<u8>>)> = vec![(0, image.clone())];
        if let Some(w) = log.get(i) {
            let pages = w.data.len() / PAGE;
            for p in 1..pages {
                let mut img = image.clone();
                apply(&mut img, w, p * PAGE);
                variants.push((p, img));
            }
        }
        for (torn, img) in variants {
            let text = format!("op=crash at={i} torn={torn}");
            crate::progress(&text);
            let c2 = cfg.clone();
            let opened = std::panic::catch_unwind(std::panic::AssertUnwindSafe(|| HExec::with_image(c2, Some(&img))));
            let line = match opened {
                Err(_) => format!("{text} open=panic reads=-"),
                Ok(mut ex2) => {
                    let reads = read_all(&mut ex2);
                    // blocks the freshly opened store reclaimed on its own (cleaning writes)
                    let first_block = if tomb { 1 } else { 0 };
                    let oclean = ex2
                        .sim
                        .log_since(0)
                        .iter()
                        .filter(|w| w.partition >= first_block && w.offset == 0 && w.data.len() == PAGE && w.data.iter().all(|b| *b == 0))
                        .count();
                    let bev: Vec<String> = foyer_storage::verif::verif_events::take().into_iter().map(|(e, b, ..)| format!("{e}.{b}")).collect();
                    let reads = format!("{reads} oclean={oclean} bev={}", if bev.is_empty() { "-".to_string() } else { bev.join(",") });
                    // a new version after the restart must supersede everything from before it
                    let mut post = String::new();
                    if rng.chance(1, 6) {
                        let k = rng.below(keys);
                        ex2.next_ver = 1_000_000 + i as u64;
                        // if this stalls, the watchdog reports this crash point with ret=deadlock
                        ex2.quiet = true;
                        crate::progress(&format!("{text} open=ok reads={reads} post={k}:{}", ex2.next_ver));
                        let l = ex2.exec(&HOp::WIns { k, sz: 's', force: true });
                        let _ = ex2.exec(&HOp::Wait);
                        let _ = ex2.exec(&HOp::Reopen);
                        let ver = l.split_whitespace().find_map(|t| t.strip_prefix("v=").map(|v| v.to_string())).unwrap_or_default();
                        post = format!(" post={k}:{ver} reads2={}", read_all(&mut ex2));
                    }
                    format!("{text} open=ok reads={reads}{post}")
                }
            };
            crate::CUR_OP.lock().clear();
            out.push_str(&line);
            out.push('\n');
            let mut t = crate::CUR_TRACE.lock();
            t.push_str(&line);
            t.push('\n');
        }
        if let Some(w) = log.get(i) {
            apply(&mut image, w, w.data.len());
        }
    }
    crate::CUR_TRACE.lock().clear();
    out
}

pub fn main(args: &Args) -> i32 {
    let seed = arg_u64(args, "seed", 0);
    let cases = arg_u64(args, "cases", 10);
    let maxops = arg_u64(args, "maxops", 14);
    let _ = GenOpts::default();
    let mut rng = Rng::new(seed ^ 0xC4A5);
    for _ in 0..cases {
        let mut r = rng.fork();
        print!("{}", run_case(&mut r, maxops));
    }
    0
}
