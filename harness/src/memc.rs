//! Concurrent memory-cache histories (C02): several OS threads run short random programs against
//! one real `Cache`; every call is stamped with a global logical clock at invocation and at
//! response.  The Lean driver decides, per key, whether the recorded history is linearizable
//! w.r.t. the register-with-misses specification.

use std::sync::{
    Arc, Barrier,
    atomic::{AtomicU64, Ordering},
};

use foyer_common::properties::Hint;
use foyer_memory::{CacheBuilder, CacheProperties};

use crate::{
    Args, arg_u64,
    mem::{FnBuildHasher, HMode, MCache, MEntry, MemCfg, Val, gen_cfg},
    rng::Rng,
};

#[derive(Clone, Debug)]
enum COp {
    Ins { k: u64, ver: u64, w: usize, phantom: bool, hold: bool },
    Get { k: u64, hold: bool },
    Contains { k: u64 },
    Touch { k: u64 },
    Remove { k: u64 },
    Clear,
    Resize { cap: usize },
    EvictAll,
    DropOne,
}

fn build(cfg: &MemCfg) -> MCache {
    CacheBuilder::new(cfg.cap)
        .with_shards(cfg.shards)
        .with_eviction_config(cfg.eviction_config())
        .with_hash_builder(FnBuildHasher(cfg.hmode))
        .with_weighter(|_k: &u64, v: &Val| v.weight)
        .with_filter(|_k: &u64, v: &Val| !v.phantom)
        .build::<CacheProperties>()
}

fn gen_prog(rng: &mut Rng, cfg: &MemCfg, n: u64, next_ver: &mut u64) -> Vec<COp> {
    let keys = cfg.keys.max(1);
    (0..n)
        .map(|_| match rng.below(100) {
            0..=34 => {
                *next_ver += 1;
                COp::Ins {
                    k: rng.below(keys),
                    ver: *next_ver,
                    w: rng.range(0, 3) as usize,
                    phantom: rng.chance(1, 15),
                    hold: rng.chance(1, 3),
                }
            }
            35..=64 => COp::Get { k: rng.below(keys), hold: rng.chance(1, 2) },
            65..=69 => COp::Contains { k: rng.below(keys) },
            70..=74 => COp::Touch { k: rng.below(keys) },
            75..=86 => COp::Remove { k: rng.below(keys) },
            87..=89 => COp::Clear,
            90..=92 => COp::Resize { cap: rng.below(cfg.cap as u64 + 3) as usize },
            93..=94 => COp::EvictAll,
            _ => COp::DropOne,
        })
        .collect()
}

pub fn run_case(rng: &mut Rng, algo: &str, threads: u64, ops_per_thread: u64) -> String {
    let mut cfg = gen_cfg(rng, "oracle", algo);
    cfg.algo = "register".into();
    cfg.keys = rng.range(1, 3);
    let collide = crate::mem::COLLIDE.load(std::sync::atomic::Ordering::Relaxed);
    if !collide && rng.chance(1, 2) {
        cfg.hmode = HMode::Id;
    }
    if collide {
        cfg.keys = rng.range(2, 3);
    }
    let cache = Arc::new(build(&cfg));
    let clock = Arc::new(AtomicU64::new(0));
    let barrier = Arc::new(Barrier::new(threads as usize));
    let mut next_ver = 0u64;
    let progs: Vec<(Vec<COp>, u64)> =
        (0..threads).map(|_| (gen_prog(rng, &cfg, rng.clone().range(1, ops_per_thread), &mut next_ver), rng.next())).collect();
    let mut joins = vec![];
    for (t, (prog, jseed)) in progs.into_iter().enumerate() {
        let cache = cache.clone();
        let clock = clock.clone();
        let barrier = barrier.clone();
        joins.push(std::thread::spawn(move || {
            let mut jr = Rng(jseed);
            let mut held: Vec<(MEntry, Val)> = vec![];
            let mut lines = vec![];
            let mut stable = true;
            barrier.wait();
            for op in prog {
                // schedule diversification: a little PRNG-drawn spinning
                for _ in 0..jr.below(200) {
                    std::hint::spin_loop();
                }
                let inv = clock.fetch_add(1, Ordering::SeqCst);
                let (text, ret): (String, String) = match &op {
                    COp::Ins { k, ver, w, phantom, hold } => {
                        let val = Val { key: *k, ver: *ver, rid: *ver, weight: *w, phantom: *phantom };
                        let e = cache.insert_with_properties(*k, val.clone(), CacheProperties::default().with_hint(Hint::Normal));
                        if *hold {
                            held.push((e, val));
                        }
                        (format!("op=ins k={k} v={ver} ph={}", if *phantom { 1 } else { 0 }), "unit".into())
                    }
                    COp::Get { k, hold } => match cache.get(k) {
                        Some(e) => {
                            let v = e.value().clone();
                            let r = format!("h:{}:{}", e.key(), v.ver);
                            if *hold {
                                held.push((e, v));
                            }
                            (format!("op=get k={k}"), r)
                        }
                        None => (format!("op=get k={k}"), "miss".into()),
                    },
                    COp::Contains { k } => (format!("op=contains k={k}"), (if cache.contains(k) { "t" } else { "f" }).into()),
                    COp::Touch { k } => (format!("op=touch k={k}"), (if cache.touch(k) { "t" } else { "f" }).into()),
                    COp::Remove { k } => match cache.remove(k) {
                        Some(e) => (format!("op=remove k={k}"), format!("h:{}:{}", e.key(), e.value().ver)),
                        None => (format!("op=remove k={k}"), "miss".into()),
                    },
                    COp::Clear => {
                        cache.clear();
                        ("op=clear".into(), "unit".into())
                    }
                    COp::Resize { cap } => {
                        let _ = cache.resize(*cap);
                        (format!("op=resize cap={cap}"), "unit".into())
                    }
                    COp::EvictAll => {
                        cache.evict_all();
                        ("op=evictall".into(), "unit".into())
                    }
                    COp::DropOne => {
                        if !held.is_empty() {
                            let i = jr.below(held.len() as u64) as usize;
                            held.swap_remove(i);
                        }
                        ("op=dropone".into(), "unit".into())
                    }
                };
                let res = clock.fetch_add(1, Ordering::SeqCst);
                for (e, snap) in held.iter() {
                    if e.value() != snap || *e.key() != snap.key || e.weight() != snap.weight {
                        stable = false;
                    }
                }
                lines.push((inv, format!("call t={t} inv={inv} res={res} {text} ret={ret} stable={}", if stable { 1 } else { 0 })));
            }
            drop(held);
            lines
        }));
    }
    let mut all: Vec<(u64, String)> = joins.into_iter().flat_map(|j| j.join().unwrap()).collect();
    all.sort();
    let mut out = cfg.line().replace("domain=mem", "domain=memc");
    out.push_str(&format!(" threads={threads}\n"));
    for (_, l) in all {
        out.push_str(&l);
        out.push('\n');
    }
    out
}

pub fn main(args: &Args) -> i32 {
    let seed = arg_u64(args, "seed", 0);
    let cases = arg_u64(args, "cases", 100);
    let threads = arg_u64(args, "threads", 3);
    let ops = arg_u64(args, "ops", 5);
    crate::mem::COLLIDE.store(arg_u64(args, "collide", 0) == 1, std::sync::atomic::Ordering::Relaxed);
    let mut rng = Rng::new(seed ^ 0xC0C0);
    let algos = ["fifo", "lru", "sieve", "s3fifo", "lfu"];
    use std::io::Write;
    let stdout = std::io::stdout();
    let mut w = std::io::BufWriter::new(stdout.lock());
    for i in 0..cases {
        let mut r = rng.fork();
        let th = 2 + (i % (threads.max(2) - 1));
        let t = run_case(&mut r, algos[(i % 5) as usize], th, ops);
        w.write_all(t.as_bytes()).unwrap();
    }
    0
}
